package pmath

import "github.com/go-netty/go-netty/internal/vrt"

// ZZ_C19_Pmath: size-class arithmetic is consistent for every size up to the documented limit.
func ZZ_C19_Pmath() {
	n := vrt.Int()
	vrt.Assume(n >= 0 && n <= 1<<62)
	c := CeilToPowerOfTwo(n)
	vrt.Assert(c >= n, "ceil>=n")
	vrt.Assert(c&(c-1) == 0, "ceil-is-pow2")
	if n > 2 {
		vrt.Reach("pmath-n>2")
		vrt.Assert(c/2 < n, "ceil-is-least")
	} else {
		vrt.Assert(c == n, "ceil-small-identity")
	}
	f := FloorToPowerOfTwo(n)
	vrt.Assert(f <= n, "floor<=n")
	vrt.Assert(f&(f-1) == 0, "floor-is-pow2")
	if n > 2 {
		vrt.Assert(f > n/2, "floor-is-greatest")
	}
	vrt.Assert(IsPowerOfTwo(c) && IsPowerOfTwo(f), "ispow2-agrees")
	if n > 0 {
		vrt.Assert(IsPowerOfTwo(n) == (c == n), "ispow2-iff-ceil-fixpoint")
		vrt.Assert(IsPowerOfTwo(n) == (f == n), "ispow2-iff-floor-fixpoint")
	}
}
