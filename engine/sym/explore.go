package sym

import (
	"fmt"
	"os"
	"strings"
	"time"

	"golang.org/x/tools/go/ssa"
	"runtime"
	"sync/atomic"
)

type option struct {
	ti    int // thread index, or -1 for a timer
	alt   int
	timer int
	what  string
}

// opKind classifies the pending visible operation of a parked thread.
type pendKind int

const (
	pkNone pendKind = iota
	pkSend
	pkRecv
	pkSelect
	pkCall
	pkOther
)

// pendingCall returns the stub key and arguments of the call a parked thread is about to make.
func (e *Engine) pendingCall(st *State, th *Thread) (string, []Value, bool) {
	fr := th.top()
	if fr == nil {
		return "", nil, false
	}
	if fr.Mode != 0 {
		if len(fr.Defers) == 0 {
			return "", nil, false
		}
		d := fr.Defers[len(fr.Defers)-1]
		if d.Fn.Fn != nil {
			return fnKey(d.Fn.Fn), d.Args, true
		}
		if d.Fn.Blt != nil {
			return "builtin:" + d.Fn.Blt.Name(), d.Args, true
		}
		return "", nil, false
	}
	in, ok := fr.Block.Instrs[fr.IP].(*ssa.Call)
	if !ok {
		return "", nil, false
	}
	cc := &in.Call
	if fn, ok := cc.Value.(*ssa.Function); ok {
		args := make([]Value, len(cc.Args))
		for i, a := range cc.Args {
			args[i] = e.get(st, fr, a)
		}
		return fnKey(fn), args, true
	}
	if b, ok := cc.Value.(*ssa.Builtin); ok {
		args := make([]Value, len(cc.Args))
		for i, a := range cc.Args {
			args[i] = e.get(st, fr, a)
		}
		return "builtin:" + b.Name(), args, true
	}
	return "", nil, false
}

// threadEnabled reports whether thread ti can take a step, and how many alternatives it has.
// quiesce/sleep are handled by the caller (they depend on the other threads).
func (e *Engine) threadEnabled(st *State, ti int) (ok bool, nalts int, special string) {
	th := st.Threads[ti]
	if th.Status != TRun {
		return false, 0, ""
	}
	if !th.Parked {
		return true, 1, ""
	}
	fr := th.top()
	if fr == nil {
		return true, 1, ""
	}
	save := st.Cur
	st.Cur = ti
	defer func() { st.Cur = save }()
	if fr.Mode == 0 {
		switch in := fr.Block.Instrs[fr.IP].(type) {
		case *ssa.Send:
			return e.chanSendReady(st, e.get(st, fr, in.Chan).(ChanV)), 1, ""
		case *ssa.UnOp:
			return e.chanRecvReady(st, e.get(st, fr, in.X).(ChanV)), 1, ""
		case *ssa.Select:
			r := e.selectReady(st, fr, in)
			if len(r) == 0 {
				return !in.Blocking, 1, ""
			}
			return true, len(r), ""
		}
	}
	key, args, isCall := e.pendingCall(st, th)
	if !isCall {
		return true, 1, ""
	}
	if en, ok := e.enabledFn[key]; ok {
		r, sp := en(e, st, th, args)
		return r, 1, sp
	}
	return true, 1, ""
}

// enabled lists the scheduling options of st in canonical order.
func (e *Engine) enabled(st *State) []option {
	var opts []option
	var quiescers, idleQuiescers, sleepers []int
	for ti := range st.Threads {
		ok, n, sp := e.threadEnabled(st, ti)
		switch sp {
		case "quiesce-idle":
			idleQuiescers = append(idleQuiescers, ti)
			continue
		case "quiesce":
			quiescers = append(quiescers, ti)
			continue
		case "sleep":
			sleepers = append(sleepers, ti)
			continue
		}
		if !ok {
			continue
		}
		for a := 0; a < n; a++ {
			opts = append(opts, option{ti: ti, alt: a})
		}
	}
	nonSleep := len(opts)
	// timers
	for i, tm := range st.Timers {
		if tm.Armed && !e.Cfg.ManualTimers {
			if st.TotalFires >= e.Cfg.MaxTimerFires {
				e.CutsTotal["cut:timer-fires"]++
				continue // bound on the number of timer expirations per path
			}
			opts = append(opts, option{ti: -1, timer: i})
		}
	}
	if nonSleep == 0 && len(idleQuiescers) > 0 {
		// vrt.QuiesceIdle: pollers that have looked again since anyone else moved count as quiescent
		idle := true
		for _, ti := range sleepers {
			if th := st.Threads[ti]; th.OthersStepped || !th.HasSlept {
				idle = false
			}
		}
		if idle && !e.hasArmedTimer(st) {
			return []option{{ti: idleQuiescers[0], what: "quiesce"}}
		}
	}
	for _, ti := range sleepers {
		th := st.Threads[ti]
		if th.OthersStepped || nonSleep == 0 {
			opts = append(opts, option{ti: ti, what: "sleep"})
		}
	}
	if nonSleep == 0 && len(opts) == 0 || (len(opts) > 0 && nonSleep == 0 && e.onlyTimers(opts)) {
		// nothing but (possibly) timers can move: quiescence
		if len(quiescers) > 0 {
			return []option{{ti: quiescers[0], what: "quiesce"}}
		}
		if len(idleQuiescers) > 0 {
			return []option{{ti: idleQuiescers[0], what: "quiesce"}}
		}
	}
	return opts
}

func (e *Engine) onlyTimers(opts []option) bool {
	for _, o := range opts {
		if o.ti >= 0 {
			return false
		}
	}
	return true
}

type ExploreResult struct {
	Layers int
}

// Explore runs the layered exploration from init.
func (e *Engine) Explore(init *State) {
	frontier := []*State{init}
	e.Stats.States++
	visited := map[[16]byte][]int32{}
	g := newStateGraph()
	init.Node = g.add(init)
	defer func() { e.checkLivelock(g) }()
	for layer := 0; len(frontier) > 0; layer++ {
		if len(frontier) > e.Stats.MaxFrontier {
			e.Stats.MaxFrontier = len(frontier)
		}
		table := map[[16]byte]*State{}
		var next []*State
		for _, st := range frontier {
			if e.stop() {
				return
			}
			opts := e.enabled(st)
			if len(opts) == 0 {
				e.terminal(st)
				g.terminal[st.Node] = true
				continue
			}
			from := st.Node
			states := make([]*State, len(opts))
			for i := range opts {
				if i == len(opts)-1 {
					states[i] = st
				} else {
					states[i] = e.clone(st)
				}
			}
			for i, op := range opts {
				s := states[i]
				if len(opts) > 1 {
					sv := e.tb.Var(8, "s_"+itoa(layer))
					s.SPC = e.tb.And(s.SPC, e.tb.Eq(sv, e.tb.Const(8, uint64(i))))
					s.SPCN++
				}
				e.applyOption(s, op, layer, i)
				e.work = append(e.work[:0], s)
				for len(e.work) > 0 {
					x := e.work[len(e.work)-1]
					e.work = e.work[:len(e.work)-1]
					e.run(x)
					e.Stats.Transitions++
					if x.Dead {
						g.terminal[from] = true // a path that ends by assumption / cut / reported violation
						continue
					}
					x.Layer = layer + 1
					if len(e.Witnesses) < e.Cfg.MaxWitness && !x.Multi && len(x.Threads) == 1 && x.Threads[0].Status == TDone {
						e.sampleWitness(x) // before merging: the log belongs to exactly this path
					}
					if !x.Multi && x.thread().Status == TRun && !x.thread().Parked {
						// cannot happen: run returns only at park/finish
						panic("run returned with runnable unparked thread")
					}
					allDone := true
					for _, t := range x.Threads {
						if t.Status == TRun {
							allDone = false
						}
					}
					if allDone {
						e.Stats.Paths++
					}
					h := e.canon(x)
					if old, ok := table[h]; ok {
						g.edge(from, old.Node)
						if old.PC != x.PC {
							old.PC = e.tb.Or(old.PC, x.PC)
						}
						old.SPC = e.tb.Or(old.SPC, x.SPC)
						old.SPCN += x.SPCN + 1
						e.Stats.Merged++
						continue
					}
					// seen in an earlier layer with the same data path condition: its successors are already explored
					if pcs, ok := visited[h]; ok {
						dup := false
						for _, id := range pcs {
							if id == x.PC.ID {
								dup = true
								break
							}
						}
						if dup {
							e.Stats.Revisits++
							g.edge(from, g.byHash[h])
							continue
						}
					}
					visited[h] = append(visited[h], x.PC.ID)
					if id, ok := g.byHash[h]; ok {
						x.Node = id
					} else {
						x.Node = g.add(x)
						g.byHash[h] = x.Node
					}
					g.edge(from, x.Node)
					table[h] = x
					next = append(next, x)
					e.Stats.States++
					if int(e.Stats.States) > e.Cfg.MaxStates {
						e.inconclusive("state budget exceeded (%d states)", e.Cfg.MaxStates)
						return
					}
				}
			}
		}
		frontier = next
		e.Stats.Layers = layer + 1
	}
}

// memory guard: the process must never be killed for memory (a killed check is neither a pass nor a finding);
// beyond the budget every job that is still exploring ends as inconclusive.
var (
	memCheckedAt int64 // unix nanoseconds of the last look
	memOver      int32
)

const memBudgetBytes = 36 << 30

func memoryExhausted() bool {
	now := time.Now().UnixNano()
	last := atomic.LoadInt64(&memCheckedAt)
	if now-last > int64(time.Second) && atomic.CompareAndSwapInt64(&memCheckedAt, last, now) {
		var ms runtime.MemStats
		runtime.ReadMemStats(&ms)
		if ms.HeapAlloc > memBudgetBytes {
			atomic.StoreInt32(&memOver, 1)
		} else {
			atomic.StoreInt32(&memOver, 0)
		}
	}
	return atomic.LoadInt32(&memOver) != 0
}

func (e *Engine) stop() bool {
	if memoryExhausted() {
		e.inconclusive("memory budget exceeded (state explosion): exploration stopped")
		e.stopped = true
		return true
	}
	if e.sol.Err != nil {
		e.inconclusive("solver failure: %v", e.sol.Err)
		return true
	}
	if !e.Cfg.Deadline.IsZero() && time.Now().After(e.Cfg.Deadline) {
		e.inconclusive("job wall-clock limit reached")
		e.stopped = true
		return true
	}
	if len(e.Viols) >= e.Cfg.MaxViolations {
		e.stopped = true
		return true
	}
	return false
}

func (e *Engine) applyOption(s *State, op option, layer, idx int) {
	if op.ti < 0 {
		e.fireTimer(s, op.timer)
		s.Sched = &schedNode{prev: s.Sched, layer: layer, tid: -1, alt: idx, what: "fire", name: "timer"}
		return
	}
	s.Cur = op.ti
	th := s.Threads[op.ti]
	node := &schedNode{prev: s.Sched, layer: layer, tid: th.ID, alt: idx, name: th.Name}
	if th.Parked {
		th.Granted = true
		th.Parked = false
		th.Alt = op.alt
		if th.VisDone == 0 {
			th.VisDone = 1
			if th.IsTimer {
				s.FiresChecked++
			}
		}
		s.VisSteps++
		for i, o := range s.Threads {
			if i != op.ti && o.HasSlept {
				o.OthersStepped = true
			}
		}
		node.frames = append([]*Frame(nil), th.Frames...)
	} else {
		node.what = "start " + th.Name
	}
	s.Sched = node
}

// terminal handles a state in which nothing can move.
func (e *Engine) terminal(st *State) {
	if len(st.Threads) > 0 {
		e.Stats.Paths++ // ends with blocked threads
	}
	for k, v := range st.Cuts {
		e.CutsTotal[k] += int64(v)
	}
	mainDone := true
	for _, th := range st.Threads {
		if th.ID == 0 && th.Status == TRun {
			mainDone = false
		}
	}
	_ = mainDone
	for _, th := range st.Threads {
		if th.ID == 0 && th.Status == TRun {
			// the harness main thread never finished
			st.Cur = e.indexOf(st, th)
			e.reportViolation(st, "deadlock", "harness main thread is blocked forever at "+e.where(th), nil)
		}
	}
}

func (e *Engine) indexOf(st *State, th *Thread) int {
	for i, t := range st.Threads {
		if t == th {
			return i
		}
	}
	return 0
}

func (e *Engine) schedList(st *State) []string {
	var out []string
	for n := st.Sched; n != nil; n = n.prev {
		what := n.what
		if n.frames != nil {
			what = e.where(&Thread{Frames: n.frames})
		}
		out = append(out, fmt.Sprintf("%d: %s: %s", n.layer, n.name, what))
	}
	for i, j := 0, len(out)-1; i < j; i, j = i+1, j-1 {
		out[i], out[j] = out[j], out[i]
	}
	return out
}

func (e *Engine) sampleWitness(st *State) {
	recs := st.nondetList()
	var extras []*Term
	for _, r := range recs {
		extras = append(extras, r.T)
	}
	// prefer small buffers so that the witness can be replayed natively
	var m *Model
	for _, lim := range []int64{64, 4096, -1} {
		small := e.tb.True
		if lim >= 0 {
			any := false
			for _, r := range recs {
				if r.Kind == "bytes" && !r.T.IsConst() {
					small = e.tb.And(small, e.tb.SLe(r.T, e.tb.Int64(lim)))
					any = true
				}
			}
			if !any {
				continue
			}
		}
		res, m2 := e.sol.CheckModel(st.PC, small, extras...)
		if res == ResSat {
			m = m2
			break
		}
	}
	if m == nil {
		return
	}
	in := e.extractInputs(m, recs)
	m.Release()
	if os.Getenv("GOSYM_DEBUGPC") != "" {
		var cs []string
		for _, c := range flattenAnd(st.PC, nil, map[int32]bool{}) {
			cs = append(cs, c.shortString(6))
		}
		fmt.Printf("WITNESS-PC %d inputs: %s\n", len(recs), strings.Join(cs, "\n     & "))
	}
	e.Witnesses = append(e.Witnesses, Witness{Inputs: in, Multi: st.Multi, EngineOnly: st.EngineOnly, Sched: e.schedList(st)})
}

// stateGraph records the explored transition graph (for livelock detection).
type stateGraph struct {
	byHash   map[[16]byte]int32
	rev      [][]int32 // reverse edges
	terminal []bool
	sched    []*schedNode
}

func newStateGraph() *stateGraph { return &stateGraph{byHash: map[[16]byte]int32{}} }

func (g *stateGraph) add(st *State) int32 {
	id := int32(len(g.rev))
	g.rev = append(g.rev, nil)
	g.terminal = append(g.terminal, false)
	g.sched = append(g.sched, st.Sched)
	return id
}

func (g *stateGraph) edge(from, to int32) {
	g.rev[to] = append(g.rev[to], from)
}

// checkLivelock reports states from which no terminal (quiescent) state is reachable: the system
// would run forever (e.g. a loop spinning on a failing read) whatever the scheduler does.
func (e *Engine) checkLivelock(g *stateGraph) {
	if len(e.Incon) > 0 || e.stopped {
		return // exploration incomplete: unreachable-terminal analysis would be unsound
	}
	n := len(g.rev)
	reach := make([]bool, n)
	var stack []int32
	for i := 0; i < n; i++ {
		if g.terminal[i] {
			reach[i] = true
			stack = append(stack, int32(i))
		}
	}
	for len(stack) > 0 {
		v := stack[len(stack)-1]
		stack = stack[:len(stack)-1]
		for _, u := range g.rev[v] {
			if !reach[u] {
				reach[u] = true
				stack = append(stack, u)
			}
		}
	}
	for i := 0; i < n; i++ {
		if !reach[i] {
			if os.Getenv("GOSYM_DEBUGPC") != "" {
				nt := 0
				for _, t := range g.terminal {
					if t {
						nt++
					}
				}
				fmt.Printf("LIVELOCK node %d of %d, terminals %d\n", i, n, nt)
			}
			st := &State{PC: e.tb.True, SPC: e.tb.True, Sched: g.sched[i], Threads: []*Thread{{}}}
			e.reportViolation(st, "livelock", "no quiescent state is reachable from the state reached by this schedule: some goroutine runs forever", nil)
			e.Stats.Livelocked++
			return
		}
	}
}

func (e *Engine) hasArmedTimer(st *State) bool {
	if e.Cfg.ManualTimers {
		return false
	}
	for _, tm := range st.Timers {
		if tm.Armed {
			return true
		}
	}
	return false
}
