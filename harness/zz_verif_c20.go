package netty

import (
	"time"

	"github.com/go-netty/go-netty/internal/vrt"
)

// zzIdleProbe records idle events (on the symbolic clock) and may panic on the first one.
type zzIdleProbe struct {
	g          *zzIdleGhost
	panicFirst bool
	panicInactive bool
	closeInActive func()
	closeBeforePanic func()
	events     int
}

type zzIdleGhost struct {
	d          int64
	activeAt   int64
	n          int
	enter      [4]int64 // clock before traffic event i entered the pipeline
	returned   [4]bool
	doneFires  [4]int // number of timer callbacks whose expiry check had begun when traffic event i had returned
	inactive   bool
	firesAtInactive int
	eventsAfterInactive int
	events     int
	exceptions int
}

func (p *zzIdleProbe) HandleEvent(ctx EventContext, ev Event) {
	g := p.g
	now := vrt.Now()
	f := vrt.FireNo()
	vrt.Assert(f > 0, "c20-idle-event-comes-from-a-timer-callback")
	g.events++
	vrt.Assert(now-g.activeAt >= g.d, "c20-no-idle-event-before-a-full-period-since-activation")
	for i := 0; i < g.n; i++ {
		if g.returned[i] && g.doneFires[i] < f {
			vrt.Assert(now-g.enter[i] >= g.d, "c20-no-idle-event-before-a-full-period-since-last-traffic")
		}
	}
	if g.inactive {
		g.eventsAfterInactive++
		vrt.Assert(f <= g.firesAtInactive, "c20-after-inactive-only-a-callback-already-in-flight-may-deliver")
		vrt.Assert(g.eventsAfterInactive <= 1, "c20-at-most-one-event-after-inactive")
		vrt.Reach("c20-event-after-inactive")
	}
	vrt.Reach("c20-idle-event")
	if p.panicFirst && g.events == 1 {
		if p.closeBeforePanic != nil {
			p.closeBeforePanic() // the handler closes the idle connection and then fails
		}
		panic("zz: event handler failure")
	}
	ctx.HandleEvent(ev)
}

func (p *zzIdleProbe) HandleActive(ctx ActiveContext) {
	if p.closeInActive != nil {
		p.closeInActive()
	}
	ctx.HandleActive()
}

// HandleInactive: the probe sits behind the idle handler, so the inactive event has passed the idle handler when it
// arrives here. A downstream handler takes time (scheduling point) and may fail.
func (p *zzIdleProbe) HandleInactive(ctx InactiveContext, ex Exception) {
	g := p.g
	g.firesAtInactive = vrt.Fires()
	g.inactive = true
	vrt.Yield()
	if p.panicInactive {
		panic("zz: inactive handler failure")
	}
	ctx.HandleInactive(ex)
}

func (p *zzIdleProbe) HandleException(ctx ExceptionContext, ex Exception) {
	p.g.exceptions++
}

// ZZ_C20_Idle: read-idle (kind 0) or write-idle (kind 1) handler on the symbolic clock: activation, `traffic`
// inbound messages / outbound writes at arbitrary instants, timer expirations at arbitrary instants not before
// their deadline and interleaved arbitrarily with the event thread, optionally the inactive event, optionally a
// panicking event handler.
func ZZ_C20_Idle(kind, traffic, withInactive, panicFirst int) {
	if !vrt.Symbolic() {
		return
	}
	g := &zzIdleGhost{n: traffic}
	d := 2000000000 // concrete clock in this (concurrent) harness; the symbolic clock is ZZ_C20_Timing's subject
	adv := []int{0, 1000000000, 2000000000, 5000000000}
	g.d = int64(d)
	probe := &zzIdleProbe{g: g, panicFirst: panicFirst == 1 || panicFirst == 3}
	tr := newZZTransport()
	if panicFirst == 2 {
		// the first outbound write passes the idle handler and then fails further down (the transport refuses it)
		tr.failWriteAt = 1
		tr.writeErr = zzErrUserClose
	}
	pl := NewPipeline()
	if kind == 0 {
		pl.AddLast(ReadIdleHandler(time.Duration(d)), probe)
	} else {
		pl.AddLast(WriteIdleHandler(time.Duration(d)), probe)
	}
	ch := zzNewChannel(pl, tr, 0, false)
	if panicFirst == 3 {
		probe.closeBeforePanic = func() { ch.Close(zzErrUserClose) }
	}
	g.activeAt = vrt.Now()
	if withInactive == 3 {
		// a handler behind the idle handler refuses the connection: it closes the channel while it handles the active
		// event, so the inactive event passes the idle handler before the active event has returned
		probe.closeInActive = func() { ch.Close(zzErrUserClose) }
		pl.FireChannelActive()
		vrt.Assert(g.inactive, "c20-inactive-event-delivered-downstream")
		vrt.Advance(int64(adv[vrt.Choose(len(adv))]))
		vrt.Quiesce()
		vrt.Assert(vrt.TimersArmed() == 0, "c20-timer-released-after-inactive")
		vrt.Reach("c20-inactive-done")
		return
	}
	pl.FireChannelActive()
	vrt.Assert(vrt.TimersArmed() == 1 || vrt.Fires() > 0, "c20-timer-armed-on-activation")
	for i := 0; i < traffic; i++ {
		vrt.Advance(int64(adv[vrt.Choose(len(adv))])) // silence before the next message
		g.enter[i] = vrt.Now()
		if kind == 0 {
			pl.FireChannelRead([]byte{byte(i)})
		} else {
			werr := ch.Write([]byte{byte(i)})
			vrt.Assert(werr == nil || (panicFirst == 2 && i == 0), "c20-write-accepted")
		}
		g.doneFires[i] = vrt.FiresChecked()
		g.returned[i] = true
	}
	vrt.Advance(int64(adv[vrt.Choose(len(adv))]))
	if withInactive != 0 {
		probe.panicInactive = withInactive == 2 // a handler behind the idle handler fails while it handles inactive
		pv := vrt.Panics(func() { pl.FireChannelInactive(zzErrUserClose) })
		vrt.Assert((pv != nil) == (withInactive == 2), "c20-inactive-event-delivered-downstream")
		if withInactive == 4 {
			// traffic that still passes the handler after inactive (a farewell written from an inactive handler, a
			// late write through a kept context) does not start timing idle periods again
			if kind == 0 {
				pl.FireChannelRead([]byte{0x7f})
			} else {
				pl.FireChannelWrite([]byte{0x7f})
			}
		}
	}
	vrt.Quiesce()
	if panicFirst == 3 && g.events >= 1 {
		// the event handler closed the channel (inactive passed the idle handler) and then panicked: the panic is
		// still routed as an exception, and the timer is released
		vrt.Assert(g.exceptions == 1, "c20-event-handler-panic-routed-as-one-exception")
		vrt.Assert(vrt.TimersArmed() == 0, "c20-timer-released-after-inactive")
		vrt.Reach("c20-close-then-panic")
		return
	}
	if withInactive != 0 {
		vrt.Assert(vrt.TimersArmed() == 0, "c20-timer-released-after-inactive")
		vrt.Reach("c20-inactive-done")
	} else {
		// delivery continues while idleness persists: the timer is armed again after every callback
		vrt.Assert(vrt.TimersArmed() == 1, "c20-timer-rearmed-while-active")
		vrt.Reach("c20-active-done")
	}
	switch {
	case panicFirst == 1 && g.events >= 1:
		vrt.Assert(g.exceptions == 1, "c20-event-handler-panic-routed-as-one-exception")
		vrt.Reach("c20-panic-routed")
	case panicFirst == 2 && kind == 1 && traffic >= 1:
		vrt.Assert(g.exceptions == 1, "c20-refused-write-raises-one-exception")
		vrt.Reach("c20-refused-write")
	default:
		vrt.Assert(g.exceptions == 0, "c20-no-exception-without-panic")
	}
}

// ZZ_C20_Timing: sequential timing semantics on the symbolic clock. `pattern` is a base-3 program, least
// significant digit first: 1 = a traffic event (inbound message / outbound write) after an arbitrary silence,
// 2 = the timer expires at an arbitrary instant not before its deadline and its callback runs to completion.
func ZZ_C20_Timing(kind, pattern, withInactive, panicFirst int) {
	if !vrt.Symbolic() {
		return // the clock and the timers are modelled by the executor; there is nothing to replay natively
	}
	g := &zzIdleGhost{}
	d := vrt.IntIn(1000000000, 20000000000)
	g.d = int64(d)
	probe := &zzIdleProbe{g: g, panicFirst: panicFirst != 0}
	tr := newZZTransport()
	pl := NewPipeline()
	if kind == 0 {
		pl.AddLast(ReadIdleHandler(time.Duration(d)), probe)
	} else {
		pl.AddLast(WriteIdleHandler(time.Duration(d)), probe)
	}
	ch := zzNewChannel(pl, tr, 0, false)
	g.activeAt = vrt.Now()
	pl.FireChannelActive()
	vrt.Assert(vrt.TimersArmed() == 1, "c20-timer-armed-on-activation")
	eventsBefore := 0
	for p := pattern; p > 0; p /= 3 {
		switch p % 3 {
		case 1:
			vrt.Advance(int64(vrt.IntIn(0, 30000000000)))
			i := g.n
			g.n++
			g.enter[i] = vrt.Now()
			if kind == 0 {
				pl.FireChannelRead([]byte{byte(i)})
			} else {
				vrt.Assert(ch.Write([]byte{byte(i)}) == nil, "c20-write-accepted")
			}
			g.doneFires[i] = vrt.FiresChecked()
			g.returned[i] = true
			vrt.Assert(vrt.TimersArmed() == 1, "c20-timer-armed-after-traffic")
		case 2:
			before := g.events
			last := g.activeAt
			for i := 0; i < g.n; i++ {
				last = g.enter[i]
			}
			fired := vrt.RunTimer()
			vrt.Assert(fired, "c20-timer-was-armed")
			vrt.Assert(vrt.TimersArmed() == 1, "c20-timer-rearmed-while-active")
			// liveness of delivery: a callback that runs a full period after the last traffic *completed* delivers the event.
			// (traffic completes no later than "now" at the time of the check; use the clock after the callback)
			_ = last
			if g.events > before {
				eventsBefore++
			}
		}
	}
	if withInactive != 0 {
		pl.FireChannelInactive(zzErrUserClose)
		g.firesAtInactive = vrt.Fires()
		g.inactive = true
		vrt.Assert(vrt.TimersArmed() == 0, "c20-timer-released-after-inactive")
		vrt.Assert(!vrt.RunTimer(), "c20-no-timer-after-inactive")
		vrt.Reach("c20-inactive-done")
	} else {
		vrt.Assert(vrt.TimersArmed() == 1, "c20-timer-rearmed-while-active")
		vrt.Reach("c20-active-done")
	}
	if panicFirst != 0 && g.events >= 1 {
		vrt.Assert(g.exceptions == 1, "c20-event-handler-panic-routed-as-one-exception")
		vrt.Reach("c20-panic-routed")
	} else {
		vrt.Assert(g.exceptions == 0, "c20-no-exception-without-panic")
	}
}

// zzIdleBomb panics on the first idle event it sees and implements nothing else (no exception handler behind the
// idle handler).
type zzIdleBomb struct{ events int }

func (b *zzIdleBomb) HandleEvent(ctx EventContext, ev Event) {
	b.events++
	if b.events == 1 {
		panic(zzErrBomb)
	}
	ctx.HandleEvent(ev)
}

// ZZ_C20_PanicRouting: the pipeline's exception handler sits IN FRONT of the idle handler, the handler that panics on
// the idle event behind it: the panic is routed as an exception through the pipeline from its head (the swallowing
// handler sees it exactly once, with the panic value itself), the channel stays open and idle events continue.
func ZZ_C20_PanicRouting(kind int) {
	if !vrt.Symbolic() {
		return
	}
	d := 2000000000
	tr := newZZTransport()
	pl := NewPipeline()
	exc := &zzExc{mode: 2}
	bomb := &zzIdleBomb{}
	if kind == 0 {
		pl.AddLast(exc, ReadIdleHandler(time.Duration(d)), bomb)
	} else {
		pl.AddLast(exc, WriteIdleHandler(time.Duration(d)), bomb)
	}
	ch := zzNewChannel(pl, tr, 0, false)
	pl.FireChannelActive()
	vrt.Advance(int64(d))
	vrt.Quiesce()
	if bomb.events >= 1 {
		vrt.Assert(len(exc.seen) == 1 && exc.seen[0] == zzErrBomb, "c20-event-handler-panic-routed-as-one-exception")
		vrt.Assert(tr.closes == 0 && ch.IsActive(), "c20-consumed-exception-keeps-channel-open")
		vrt.Reach("c20-panic-routed-from-head")
	}
	vrt.Reach("c20-panic-routing-done")
}
