package sym

import (
	"fmt"
	"go/token"
	"go/types"

	"golang.org/x/tools/go/ssa"
)

type fnInfo struct {
	idx   map[ssa.Value]int
	nregs int
	// harness: function belongs to a harness file / vrt package (exempt from race monitor, budgets same)
	harness bool
}

type DeferRec struct {
	Fn   FuncV
	Args []Value
	Pos  token.Pos
}

type Frame struct {
	Gen       int
	Fn        *ssa.Function
	Info      *fnInfo
	Block     *ssa.BasicBlock
	IP        int
	PrevBlock *ssa.BasicBlock
	Regs      []Value
	Defers    []DeferRec
	Mode      uint8 // 0 normal; 1 RunDefers in progress; 2 unwinding a panic
	IsDefer   bool  // this frame is a deferred call: result discarded, caller continues its defer loop
	Results   Value // set when frame finished by recovery (named results read through Recover block)
	// panic bookkeeping: the panic that was active when this frame started unwinding
	Recovered bool
}

func (f *Frame) clone(gen int) *Frame {
	n := *f
	n.Gen = gen
	n.Regs = append([]Value(nil), f.Regs...)
	if len(f.Defers) > 0 {
		n.Defers = append([]DeferRec(nil), f.Defers...)
	}
	return &n
}

type TStatus uint8

const (
	TRun     TStatus = iota // runnable (possibly parked at a visible operation)
	TDone                   // finished
	TCrashed                // uncaught panic reached the top of the thread
)

type PanicRec struct {
	Val     Value // IfaceV
	Runtime bool
	Why     string
}

type Thread struct {
	ID       int
	Frames   []*Frame
	Status   TStatus
	Parked   bool // at a visible operation, waiting to be scheduled
	Granted  bool // the scheduler allowed the next visible operation
	ParkNext bool // park at the next instruction boundary (set by an operation after which others may run at once)
	Alt      int  // chosen alternative for select
	Panic    *PanicRec
	NNondet  int // per-thread counter for deterministic names
	NAlloc   int
	NoPreempt int // >0: inside vrt.Atomic
	Name     string
	Harness  bool // spawned by harness via vrt.Go
	IsTimer  bool
	VisDone  int // visible operations performed so far (saturating at 1 for state identity)
	FireNo   int // for timer callback threads: which firing (1-based) started this thread
	Quiescing bool
	OthersStepped bool // some other thread took a visible step since this thread last slept
	HasSlept bool
	IdleSleeps int // consecutive sleeps during which nothing else moved
	Sleeps   int   // contended sleeps so far (spin cut)
	Slept    *Term // accumulated sleep time (ns)
	// happens-before vector clock (race mode)
	VC []int32
}

func (t *Thread) clone() *Thread {
	n := *t
	n.Frames = append([]*Frame(nil), t.Frames...)
	if t.VC != nil {
		n.VC = append([]int32(nil), t.VC...)
	}
	return &n
}

func (t *Thread) top() *Frame {
	if len(t.Frames) == 0 {
		return nil
	}
	return t.Frames[len(t.Frames)-1]
}

// NondetRec records one nondeterministic input along a path (for replay).
type NondetRec struct {
	Kind string // "int","byte","bool","bytes","choose"
	T    *Term  // scalar term (or length for bytes)
	Arr  *ByteArr
	Conc int64 // concrete choice for "choose"
	Th   int
}

type logNode struct {
	prev *logNode
	rec  NondetRec
	n    int
}

type strNode struct {
	prev *strNode
	s    string
	t    *Term
}

type TimerRec struct {
	Obj      ObjID // the *time.Timer object
	F        FuncV
	Armed    bool
	Deadline *Term // clock value at which it may fire
	Fires    int
}

type schedNode struct {
	prev  *schedNode
	layer int
	tid   int
	alt   int
	what  string
	name  string
	// lazily formatted location: the frames of the thread when it was scheduled
	frames []*Frame
}

type State struct {
	Gen     int
	Node    int32 // index in the explored state graph
	PC      *Term
	SPCN    int   // approximate size of SPC (number of conjunctions / disjunctions applied)
	SPC     *Term // schedule constraints (s_k = choice), kept apart from the data path condition
	Heap    map[ObjID]*Object
	NextObj ObjID
	Globals map[*ssa.Global]ObjID
	Threads []*Thread
	Cur     int
	Clock   *Term
	Timers  []TimerRec
	TotalFires int
	FiresChecked int // timer callbacks that have performed their first synchronisation operation (their expiry check)
	Log     *logNode // nondet inputs in call order
	Facets  *strNode
	Sched   *schedNode
	Steps   int
	VisSteps int
	Layer   int
	forced  map[int32]bool
	NFresh  int
	EngineOnly bool
	EnvChoices int // nondeterministic choices made by environment models (sync.Pool, select tie-break)
	snapEnv int
	// snapshot of per-instruction counters (see Engine.decide)
	snapNondet int
	snapFresh  int
	snapObj    ObjID
	snapLog    *logNode
	snapFacets *strNode
	Dead    bool // path ended (assume false / killed)
	// cut counters etc.
	Cuts map[string]int
	// per-path info
	depthForks int
	Multi      bool // more than one thread has ever existed (visible ops park)
	nextTID    int
	// race monitor state
	Shadow map[shadowKey]*shadowCell
	SyncVC map[shadowKey][]int32 // clocks of synchronisation objects (atomic cells, mutexes, channels, timers)
	DoneVC []int32               // join of the clocks of finished threads
	// encoding/json contract stub (C16)
	JSONLastMarshal Value
	JSONLastArg     Value
}

func (s *State) thread() *Thread { return s.Threads[s.Cur] }

func (e *Engine) newGen() int { e.gen++; return e.gen }

// clone produces an independent copy; both copies get fresh generations.
func (e *Engine) clone(s *State) *State {
	n := *s
	n.Gen = e.newGen()
	s.Gen = e.newGen()
	n.Heap = make(map[ObjID]*Object, len(s.Heap))
	for k, v := range s.Heap {
		n.Heap[k] = v
	}
	n.Globals = make(map[*ssa.Global]ObjID, len(s.Globals))
	for k, v := range s.Globals {
		n.Globals[k] = v
	}
	n.Threads = make([]*Thread, len(s.Threads))
	for i, t := range s.Threads {
		n.Threads[i] = t.clone()
	}
	if len(s.Timers) > 0 {
		n.Timers = append([]TimerRec(nil), s.Timers...)
	}
	if s.forced != nil {
		n.forced = make(map[int32]bool, len(s.forced))
		for k, v := range s.forced {
			n.forced[k] = v
		}
	}
	if s.Cuts != nil {
		n.Cuts = make(map[string]int, len(s.Cuts))
		for k, v := range s.Cuts {
			n.Cuts[k] = v
		}
	}
	if s.Shadow != nil {
		n.Shadow = make(map[shadowKey]*shadowCell, len(s.Shadow))
		for k, v := range s.Shadow {
			n.Shadow[k] = v
		}
	}
	if s.SyncVC != nil {
		n.SyncVC = make(map[shadowKey][]int32, len(s.SyncVC))
		for k, v := range s.SyncVC {
			n.SyncVC[k] = v
		}
	}
	e.Stats.Clones++
	return &n
}

// ---------------------------------------------------------------------------
// heap access

func (s *State) obj(id ObjID) *Object {
	o := s.Heap[id]
	if o == nil {
		panic(fmt.Sprintf("dangling object o%d", id))
	}
	return o
}

// wobj returns a writable version of the object.
func (s *State) wobj(id ObjID) *Object {
	o := s.obj(id)
	if o.Gen != s.Gen {
		o = o.clone(s.Gen)
		s.Heap[id] = o
	}
	return o
}

func (s *State) wframe(th *Thread) *Frame {
	i := len(th.Frames) - 1
	f := th.Frames[i]
	if f.Gen != s.Gen {
		f = f.clone(s.Gen)
		th.Frames[i] = f
	}
	return f
}

func (s *State) newObj(o *Object) ObjID {
	s.NextObj++
	id := s.NextObj
	o.Gen = s.Gen
	s.Heap[id] = o
	return id
}

func (e *Engine) allocCells(s *State, t types.Type, v Value) ObjID {
	return s.newObj(&Object{Kind: OCells, Typ: t, V: v})
}

func (e *Engine) allocBytes(s *State, arr *ByteArr, size *Term) ObjID {
	return s.newObj(&Object{Kind: OBytes, Arr: arr, Size: size})
}

// loadPath reads the value at path inside root.
func loadPath(root Value, path string) Value {
	v := root
	for i := 0; i+1 < len(path); i += 2 {
		k := int(path[i])<<8 | int(path[i+1])
		switch x := v.(type) {
		case *StructV:
			v = x.F[k]
		case *ArrayV:
			v = x.E[k]
		default:
			panic(fmt.Sprintf("loadPath: cannot index %T", v))
		}
	}
	return v
}

func storePath(root Value, path string, nv Value) Value {
	if len(path) == 0 {
		return nv
	}
	k := int(path[0])<<8 | int(path[1])
	switch x := root.(type) {
	case *StructV:
		n := &StructV{F: append([]Value(nil), x.F...)}
		n.F[k] = storePath(x.F[k], path[2:], nv)
		return n
	case *ArrayV:
		n := &ArrayV{E: append([]Value(nil), x.E...)}
		n.E[k] = storePath(x.E[k], path[2:], nv)
		return n
	}
	panic(fmt.Sprintf("storePath: cannot index %T", root))
}

func (s *State) addFacet(name string, t *Term) {
	s.Facets = &strNode{prev: s.Facets, s: name, t: t}
}

func (s *State) logNondet(r NondetRec) {
	n := 1
	if s.Log != nil {
		n = s.Log.n + 1
	}
	s.Log = &logNode{prev: s.Log, rec: r, n: n}
}

func (s *State) nondetList() []NondetRec {
	var out []NondetRec
	for n := s.Log; n != nil; n = n.prev {
		out = append(out, n.rec)
	}
	for i, j := 0, len(out)-1; i < j; i, j = i+1, j-1 {
		out[i], out[j] = out[j], out[i]
	}
	return out
}

func (s *State) cut(label string) {
	if s.Cuts == nil {
		s.Cuts = map[string]int{}
	}
	s.Cuts[label]++
}
