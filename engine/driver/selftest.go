package driver

import (
	"encoding/json"
	"fmt"
	"os"
	"path/filepath"
	"strings"
	"time"
)

// Mutant is one entry of /verif/selftest/mutants.json: a small source edit applied through the overlay
// (never to /repo) that the listed checks must turn into a VIOLATION.
type Mutant struct {
	ID     string   `json:"id"`
	File   string   `json:"file"`
	Old    string   `json:"old"`
	New    string   `json:"new"`
	Checks []string `json:"checks"`
	Note   string   `json:"note"`
}

func cmdSelftest(args []string) int {
	data, err := os.ReadFile(verifDir() + "/selftest/mutants.json")
	if err != nil {
		fmt.Fprintln(os.Stderr, err)
		return 2
	}
	var muts []Mutant
	if err := json.Unmarshal(data, &muts); err != nil {
		fmt.Fprintln(os.Stderr, "mutants.json:", err)
		return 2
	}
	want := map[string]bool{}
	for _, a := range args {
		want[a] = true
	}
	missed := 0
	for _, m := range muts {
		if len(want) > 0 && !want[m.ID] {
			continue
		}
		path := filepath.Join(RepoDir, m.File)
		src, err := os.ReadFile(path)
		if err != nil {
			fmt.Printf("%-28s ERROR %v\n", m.ID, err)
			continue
		}
		if strings.Count(string(src), m.Old) != 1 {
			fmt.Printf("%-28s ERROR pattern occurs %d times in %s\n", m.ID, strings.Count(string(src), m.Old), m.File)
			continue
		}
		mutated := strings.Replace(string(src), m.Old, m.New, 1)
		l, err := Load(verifDir()+"/harness", map[string][]byte{path: []byte(mutated)})
		if err != nil {
			fmt.Printf("%-28s ERROR does not compile: %v\n", m.ID, firstLine(err.Error()))
			continue
		}
		var res []string
		caught := false
		for _, id := range m.Checks {
			spec := Specs[id]
			if spec == nil {
				continue
			}
			old := os.Stdout
			null, _ := os.OpenFile(os.DevNull, os.O_WRONLY, 0)
			os.Stdout = null
			start := time.Now()
			code := runCheck(l, id, "quick", 0, spec, start, false)
			os.Stdout = old
			null.Close()
			res = append(res, fmt.Sprintf("%s=%d(%.0fs)", id, code, time.Since(start).Seconds()))
			if code == 1 {
				caught = true
			}
		}
		verdict := "CAUGHT"
		if !caught {
			verdict = "MISSED"
			missed++
		}
		fmt.Printf("%-28s %s %s  -- %s\n", m.ID, verdict, strings.Join(res, " "), m.Note)
	}
	if missed > 0 {
		return 1
	}
	return 0
}

func firstLine(s string) string {
	if i := strings.Index(s, "\n"); i >= 0 {
		j := strings.Index(s[i+1:], "\n")
		if j >= 0 {
			return s[:i+1+j]
		}
	}
	return s
}
