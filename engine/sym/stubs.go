package sym

import (
	"fmt"
	"go/token"
	"go/types"
	"strings"

	"golang.org/x/tools/go/ssa"
)

type enabledFn func(e *Engine, st *State, th *Thread, args []Value) (bool, string)

func (e *Engine) stub(name string, f stubFn) { e.stubTab[name] = f }
func (e *Engine) visible(name string, f stubFn, en enabledFn) {
	e.stubTab[name] = f
	e.visibleFn[name] = true
	if en != nil {
		e.enabledFn[name] = en
	}
}

func (e *Engine) initStubs() {
	e.stubTab = map[string]stubFn{}
	e.visibleFn = map[string]bool{}
	e.enabledFn = map[string]enabledFn{}
	e.redirect = map[string]*ssa.Function{}
	e.fnIDs = map[*ssa.Function]int32{}
	e.typeIDs = map[string]int32{}
	tb := e.tb
	V := e.Cfg.VrtPath + "."

	// ---- vrt intrinsics -------------------------------------------------
	e.stub(V+"Byte", func(e *Engine, st *State, th *Thread, c *callCtx) Value {
		v := e.freshVar(st, th, 8, "b")
		st.logNondet(NondetRec{Kind: "byte", T: v})
		return v
	})
	e.stub(V+"Int", func(e *Engine, st *State, th *Thread, c *callCtx) Value {
		v := e.freshVar(st, th, 64, "i")
		st.logNondet(NondetRec{Kind: "int", T: v})
		return v
	})
	e.stub(V+"Bool", func(e *Engine, st *State, th *Thread, c *callCtx) Value {
		v := e.freshVar(st, th, 0, "p")
		st.logNondet(NondetRec{Kind: "bool", T: v})
		return v
	})
	e.stub(V+"IntIn", func(e *Engine, st *State, th *Thread, c *callCtx) Value {
		lo, hi := c.args[0].(*Term), c.args[1].(*Term)
		v := e.freshVar(st, th, 64, "i")
		st.logNondet(NondetRec{Kind: "int", T: v})
		if lo.IsConst() && hi.IsConst() && lo.Int() <= hi.Int() {
			// fresh variable, non-empty constant range: feasible by construction
			st.PC = tb.And(st.PC, tb.And(tb.SLe(lo, v), tb.SLe(v, hi)))
			return v
		}
		e.assume(st, tb.And(tb.SLe(lo, v), tb.SLe(v, hi)))
		return v
	})
	e.stub(V+"Bytes", func(e *Engine, st *State, th *Thread, c *callCtx) Value {
		n := c.args[0].(*Term)
		if !e.decide(st, tb.And(tb.SLe(tb.Int64(0), n), tb.SLt(n, tb.Int64(1<<48)))) {
			e.raiseRuntime(st, th, "vrt.Bytes: negative length")
		}
		name := e.freshVar(st, th, 8, "m").Name
		arr := tb.ArrSym(name)
		id := e.allocBytes(st, arr, n)
		st.Heap[id].Harness = true
		st.Heap[id].Site = "vrt.Bytes"
		st.logNondet(NondetRec{Kind: "bytes", T: n, Arr: arr})
		return SliceV{Obj: id, Off: tb.Int64(0), Len: n, Cap: n}
	})
	e.stub(V+"Choose", func(e *Engine, st *State, th *Thread, c *callCtx) Value {
		n := int(e.constOf(c.args[0].(*Term), "Choose arity"))
		v := e.freshVar(st, th, 64, "c")
		st.logNondet(NondetRec{Kind: "int", T: v})
		k := e.forkFresh(st, v, n)
		return tb.Int64(int64(k))
	})
	e.stub(V+"Concrete", func(e *Engine, st *State, th *Thread, c *callCtx) Value {
		t := c.args[0].(*Term)
		return tb.Const(t.W, e.concretize(st, t, "vrt.Concrete"))
	})
	e.stub(V+"Assume", func(e *Engine, st *State, th *Thread, c *callCtx) Value {
		e.assume(st, c.args[0].(*Term))
		return nil
	})
	e.stub(V+"Assert", func(e *Engine, st *State, th *Thread, c *callCtx) Value {
		label, _ := c.args[1].(StrV).constString()
		e.checkAssert(st, th, c.args[0].(*Term), label)
		return nil
	})
	e.stub(V+"Reach", func(e *Engine, st *State, th *Thread, c *callCtx) Value {
		label, _ := c.args[0].(StrV).constString()
		e.Reached[label]++
		return nil
	})
	e.stub(V+"Facet", func(e *Engine, st *State, th *Thread, c *callCtx) Value {
		name, _ := c.args[0].(StrV).constString()
		st.addFacet(name, c.args[1].(*Term))
		return nil
	})
	e.stub(V+"Go", func(e *Engine, st *State, th *Thread, c *callCtx) Value {
		name, _ := c.args[0].(StrV).constString()
		e.spawn(st, th, c.args[1].(FuncV), nil, name, true)
		return nil
	})
	e.visible(V+"Yield", func(e *Engine, st *State, th *Thread, c *callCtx) Value { return nil }, nil)
	e.visible(V+"Quiesce", func(e *Engine, st *State, th *Thread, c *callCtx) Value {
		if e.Cfg.Race {
			e.hbJoinAll(st, th)
		}
		for i, o := range st.Threads {
			if i != st.Cur && o.Status == TRun {
				return tb.True
			}
		}
		return tb.False
	}, func(e *Engine, st *State, th *Thread, args []Value) (bool, string) { return false, "quiesce" })
	e.stub(V+"Monitored", func(e *Engine, st *State, th *Thread, c *callCtx) Value {
		if iv, ok := c.args[0].(IfaceV); ok {
			if p, ok := iv.V.(Ptr); ok && p.Obj != 0 {
				st.wobj(p.Obj).Harness = false
			}
		}
		return nil
	})
	e.visible(V+"QuiesceIdle", func(e *Engine, st *State, th *Thread, c *callCtx) Value {
		if e.Cfg.Race {
			e.hbJoinAll(st, th)
		}
		for i, o := range st.Threads {
			if i != st.Cur && o.Status == TRun {
				return tb.True
			}
		}
		return tb.False
	}, func(e *Engine, st *State, th *Thread, args []Value) (bool, string) { return false, "quiesce-idle" })
	e.visible(V+"atomicBegin", func(e *Engine, st *State, th *Thread, c *callCtx) Value {
		if e.Cfg.Race {
			e.hbAtomicBegin(st, th)
		}
		th.NoPreempt++
		return nil
	}, nil)
	e.stub(V+"atomicEnd", func(e *Engine, st *State, th *Thread, c *callCtx) Value {
		th.NoPreempt--
		if e.Cfg.Race && th.NoPreempt == 0 {
			e.hbAtomicEnd(st, th)
		}
		return nil
	})
	e.stub(V+"IsRuntimeError", func(e *Engine, st *State, th *Thread, c *callCtx) Value {
		iv, ok := c.args[0].(IfaceV)
		if !ok || iv.T == nil {
			return tb.False
		}
		return tb.Bool(types.Identical(iv.T, e.runtimeErrorType()))
	})
	e.stub(V+"Self", func(e *Engine, st *State, th *Thread, c *callCtx) Value { return tb.Int64(int64(th.ID)) })
	e.stub(V+"RunTimer", func(e *Engine, st *State, th *Thread, c *callCtx) Value {
		// fire one armed timer now, at an arbitrary instant not before its deadline, and run its callback to completion
		// on the calling thread (sequential timing harnesses)
		for i := range st.Timers {
			if st.Timers[i].Armed {
				st.Timers = append([]TimerRec(nil), st.Timers...)
				tm := &st.Timers[i]
				tm.Armed = false
				tm.Fires++
				st.TotalFires++
				clk := e.tick(st)
				st.PC = tb.And(st.PC, tb.SLe(tm.Deadline, clk))
				if c.instr == nil {
					panic(&Unsupported{"deferred RunTimer"})
				}
				th.FireNo = st.TotalFires
				st.FiresChecked++
				e.pushFrame(st, th, e.vrt.Func("runTimerCallback"), nil, []Value{tm.F}, false)
				c.pushed = true
				return nil
			}
		}
		return tb.False
	})
	e.stub(V+"endTimerCallback", func(e *Engine, st *State, th *Thread, c *callCtx) Value {
		th.FireNo = 0
		return nil
	})
	e.stub(V+"FiresChecked", func(e *Engine, st *State, th *Thread, c *callCtx) Value { return tb.Int64(int64(st.FiresChecked)) })
	e.stub(V+"Fires", func(e *Engine, st *State, th *Thread, c *callCtx) Value { return tb.Int64(int64(st.TotalFires)) })
	e.stub(V+"FireNo", func(e *Engine, st *State, th *Thread, c *callCtx) Value { return tb.Int64(int64(th.FireNo)) })
	e.stub(V+"TimersArmed", func(e *Engine, st *State, th *Thread, c *callCtx) Value {
		n := 0
		for _, tm := range st.Timers {
			if tm.Armed {
				n++
			}
		}
		return tb.Int64(int64(n))
	})
	e.stub(V+"Symbolic", func(e *Engine, st *State, th *Thread, c *callCtx) Value {
		st.EngineOnly = true // the harness branches on running under the executor: its paths cannot be replayed natively
		return tb.True
	})
	e.stub(V+"Cut", func(e *Engine, st *State, th *Thread, c *callCtx) Value {
		label, _ := c.args[0].(StrV).constString()
		st.cut(label)
		e.CutsTotal[label]++
		e.Stats.CutPaths++
		panic(killPath{"cut " + label})
	})
	e.stub(V+"Now", func(e *Engine, st *State, th *Thread, c *callCtx) Value { return e.clock(st) })
	e.stub(V+"Advance", func(e *Engine, st *State, th *Thread, c *callCtx) Value {
		d := c.args[0].(*Term)
		st.Clock = tb.Add(e.clock(st), d)
		return nil
	})
	e.stub(V+"Slept", func(e *Engine, st *State, th *Thread, c *callCtx) Value {
		// total time the *other* threads of the given name slept is not tracked; return caller's
		if th.Slept == nil {
			return tb.Int64(0)
		}
		return th.Slept
	})
	e.stub(V+"Blocked", func(e *Engine, st *State, th *Thread, c *callCtx) Value {
		// number of threads (other than the caller) that are parked and not enabled
		n := 0
		for i, o := range st.Threads {
			if i == st.Cur || o.Status != TRun || !o.Parked {
				continue
			}
			if ok, _, sp := e.threadEnabled(st, i); !ok && sp == "" {
				n++
			}
		}
		return tb.Int64(int64(n))
	})
	e.stub(V+"Trace", func(e *Engine, st *State, th *Thread, c *callCtx) Value {
		msg, _ := c.args[0].(StrV).constString()
		if e.Cfg.Trace {
			fmt.Printf("TRACE %s %s\n", msg, showValue(c.args[1]))
		}
		return nil
	})

	// ---- sync/atomic ------------------------------------------------------
	for _, ty := range []string{"Int32", "Int64", "Uint32", "Uint64", "Uintptr"} {
		ty := ty
		e.visible("sync/atomic.Load"+ty, func(e *Engine, st *State, th *Thread, c *callCtx) Value {
			return e.atomicLoad(st, th, c.args[0].(Ptr))
		}, nil)
		e.visible("sync/atomic.Store"+ty, func(e *Engine, st *State, th *Thread, c *callCtx) Value {
			e.atomicStore(st, th, c.args[0].(Ptr), c.args[1])
			return nil
		}, nil)
		e.visible("sync/atomic.Add"+ty, func(e *Engine, st *State, th *Thread, c *callCtx) Value {
			p := c.args[0].(Ptr)
			old := e.atomicLoad(st, th, p).(*Term)
			nv := tb.Add(old, c.args[1].(*Term))
			e.atomicStore(st, th, p, nv)
			return nv
		}, nil)
		e.visible("sync/atomic.Swap"+ty, func(e *Engine, st *State, th *Thread, c *callCtx) Value {
			p := c.args[0].(Ptr)
			old := e.atomicLoad(st, th, p)
			e.atomicStore(st, th, p, c.args[1])
			return old
		}, nil)
		e.visible("sync/atomic.CompareAndSwap"+ty, func(e *Engine, st *State, th *Thread, c *callCtx) Value {
			p := c.args[0].(Ptr)
			old := e.atomicLoad(st, th, p).(*Term)
			if e.decide(st, tb.Eq(old, c.args[1].(*Term))) {
				e.atomicStore(st, th, p, c.args[2])
				return tb.True
			}
			return tb.False
		}, nil)
	}
	// atomic.Value: the stored interface value lives in the struct's single field
	avCell := func(p Ptr) Ptr { return Ptr{Obj: p.Obj, Path: pathAppend(p.Path, 0)} }
	e.visible("(*sync/atomic.Value).Load", func(e *Engine, st *State, th *Thread, c *callCtx) Value {
		v := e.atomicLoad(st, th, avCell(c.args[0].(Ptr)))
		if iv, ok := v.(IfaceV); ok {
			return iv
		}
		return IfaceV{}
	}, nil)
	e.visible("(*sync/atomic.Value).Store", func(e *Engine, st *State, th *Thread, c *callCtx) Value {
		iv := c.args[1].(IfaceV)
		if iv.T == nil {
			e.raise(st, th, &PanicRec{Val: IfaceV{T: types.Typ[types.String], V: StrV{Arr: tb.ArrLit("sync/atomic: store of nil value into Value"), Off: tb.Int64(0), Len: tb.Int64(41)}}})
		}
		e.atomicStore(st, th, avCell(c.args[0].(Ptr)), iv)
		return nil
	}, nil)
	e.visible("(*sync/atomic.Value).Swap", func(e *Engine, st *State, th *Thread, c *callCtx) Value {
		p := avCell(c.args[0].(Ptr))
		old := e.atomicLoad(st, th, p)
		e.atomicStore(st, th, p, c.args[1])
		if iv, ok := old.(IfaceV); ok {
			return iv
		}
		return IfaceV{}
	}, nil)
	// atomic.Pointer[T]: struct{_ [0]*T; _ noCopy; v unsafe.Pointer}
	apCell := func(p Ptr) Ptr { return Ptr{Obj: p.Obj, Path: pathAppend(p.Path, 2)} }
	e.visible("(*sync/atomic.Pointer[T]).Load", func(e *Engine, st *State, th *Thread, c *callCtx) Value {
		return e.atomicLoad(st, th, apCell(c.args[0].(Ptr)))
	}, nil)
	e.visible("(*sync/atomic.Pointer[T]).Store", func(e *Engine, st *State, th *Thread, c *callCtx) Value {
		e.atomicStore(st, th, apCell(c.args[0].(Ptr)), c.args[1])
		return nil
	}, nil)
	e.visible("(*sync/atomic.Pointer[T]).Swap", func(e *Engine, st *State, th *Thread, c *callCtx) Value {
		p := apCell(c.args[0].(Ptr))
		old := e.atomicLoad(st, th, p)
		e.atomicStore(st, th, p, c.args[1])
		return old
	}, nil)
	e.visible("(*sync/atomic.Pointer[T]).CompareAndSwap", func(e *Engine, st *State, th *Thread, c *callCtx) Value {
		p := apCell(c.args[0].(Ptr))
		old := e.atomicLoad(st, th, p).(Ptr)
		exp := c.args[1].(Ptr)
		if old.Obj == exp.Obj && old.Path == exp.Path {
			e.atomicStore(st, th, p, c.args[2])
			return tb.True
		}
		return tb.False
	}, nil)
	e.visible("sync/atomic.LoadPointer", func(e *Engine, st *State, th *Thread, c *callCtx) Value {
		return e.atomicLoad(st, th, c.args[0].(Ptr))
	}, nil)
	e.visible("sync/atomic.StorePointer", func(e *Engine, st *State, th *Thread, c *callCtx) Value {
		e.atomicStore(st, th, c.args[0].(Ptr), c.args[1])
		return nil
	}, nil)

	// ---- sync.Mutex / RWMutex ---------------------------------------------
	mstate := func(p Ptr) Ptr { return Ptr{Obj: p.Obj, Path: pathAppend(p.Path, 0)} }
	isFree := func(e *Engine, st *State, p Ptr) bool {
		v := loadPath(st.obj(p.Obj).V, mstate(p).Path).(*Term)
		return v.IsConst() && v.K == 0
	}
	e.visible("(*sync.Mutex).Lock", func(e *Engine, st *State, th *Thread, c *callCtx) Value {
		p := c.args[0].(Ptr)
		if p.Obj == 0 {
			e.raiseRuntime(st, th, "nil mutex")
		}
		if !isFree(e, st, p) {
			e.blockForever(st, th, "Mutex.Lock")
		}
		o := st.wobj(p.Obj)
		o.V = storePath(o.V, mstate(p).Path, tb.Const(32, 1))
		if e.Cfg.Race {
			e.hbAcquire(st, th, p)
		}
		return nil
	}, func(e *Engine, st *State, th *Thread, args []Value) (bool, string) {
		p := args[0].(Ptr)
		return p.Obj == 0 || isFree(e, st, p), ""
	})
	e.visible("(*sync.Mutex).TryLock", func(e *Engine, st *State, th *Thread, c *callCtx) Value {
		p := c.args[0].(Ptr)
		if !isFree(e, st, p) {
			return tb.False
		}
		o := st.wobj(p.Obj)
		o.V = storePath(o.V, mstate(p).Path, tb.Const(32, 1))
		if e.Cfg.Race {
			e.hbAcquire(st, th, p)
		}
		return tb.True
	}, nil)
	e.visible("(*sync.Mutex).Unlock", func(e *Engine, st *State, th *Thread, c *callCtx) Value {
		p := c.args[0].(Ptr)
		if p.Obj == 0 {
			e.raiseRuntime(st, th, "nil mutex")
		}
		if isFree(e, st, p) {
			e.reportViolation(st, "fatal-unlock", "sync: unlock of unlocked mutex (fatal error) at "+e.where(th), nil)
			panic(killPath{"fatal"})
		}
		o := st.wobj(p.Obj)
		o.V = storePath(o.V, mstate(p).Path, tb.Const(32, 0))
		if e.Cfg.Race {
			e.hbRelease(st, th, p)
		}
		return nil
	}, nil)
	// RWMutex: w.state (path 0,0) = writer held; writerSem (field 1) = reader count
	rwW := func(p Ptr) string { return pathAppend(pathAppend(p.Path, 0), 0) }
	rwR := func(p Ptr) string { return pathAppend(p.Path, 1) }
	rwGet := func(st *State, p Ptr) (w, r uint64) {
		root := st.obj(p.Obj).V
		return loadPath(root, rwW(p)).(*Term).K, loadPath(root, rwR(p)).(*Term).K
	}
	e.visible("(*sync.RWMutex).Lock", func(e *Engine, st *State, th *Thread, c *callCtx) Value {
		p := c.args[0].(Ptr)
		w, r := rwGet(st, p)
		if w != 0 || r != 0 {
			e.blockForever(st, th, "RWMutex.Lock")
		}
		o := st.wobj(p.Obj)
		o.V = storePath(o.V, rwW(p), tb.Const(32, 1))
		if e.Cfg.Race {
			e.hbAcquire(st, th, p)
		}
		return nil
	}, func(e *Engine, st *State, th *Thread, args []Value) (bool, string) {
		w, r := rwGet(st, args[0].(Ptr))
		return w == 0 && r == 0, ""
	})
	e.visible("(*sync.RWMutex).Unlock", func(e *Engine, st *State, th *Thread, c *callCtx) Value {
		p := c.args[0].(Ptr)
		w, _ := rwGet(st, p)
		if w == 0 {
			e.reportViolation(st, "fatal-unlock", "sync: Unlock of unlocked RWMutex (fatal error) at "+e.where(th), nil)
			panic(killPath{"fatal"})
		}
		o := st.wobj(p.Obj)
		o.V = storePath(o.V, rwW(p), tb.Const(32, 0))
		if e.Cfg.Race {
			e.hbRelease(st, th, p)
		}
		return nil
	}, nil)
	e.visible("(*sync.RWMutex).RLock", func(e *Engine, st *State, th *Thread, c *callCtx) Value {
		p := c.args[0].(Ptr)
		w, r := rwGet(st, p)
		if w != 0 {
			e.blockForever(st, th, "RWMutex.RLock")
		}
		o := st.wobj(p.Obj)
		o.V = storePath(o.V, rwR(p), tb.Const(32, r+1))
		if e.Cfg.Race {
			e.hbAcquire(st, th, p)
		}
		return nil
	}, func(e *Engine, st *State, th *Thread, args []Value) (bool, string) {
		w, _ := rwGet(st, args[0].(Ptr))
		return w == 0, ""
	})
	e.visible("(*sync.RWMutex).RUnlock", func(e *Engine, st *State, th *Thread, c *callCtx) Value {
		p := c.args[0].(Ptr)
		_, r := rwGet(st, p)
		if r == 0 {
			e.reportViolation(st, "fatal-unlock", "sync: RUnlock of unlocked RWMutex (fatal error) at "+e.where(th), nil)
			panic(killPath{"fatal"})
		}
		o := st.wobj(p.Obj)
		o.V = storePath(o.V, rwR(p), tb.Const(32, r-1))
		if e.Cfg.Race {
			e.hbReleaseShared(st, th, p)
		}
		return nil
	}, nil)

	// ---- sync.Pool (abstract mode: Get misses, Put havocs) --------------------
	e.stub("(*sync.Pool).Get", func(e *Engine, st *State, th *Thread, c *callCtx) Value {
		p := c.args[0].(Ptr)
		if e.PoolPrecise {
			q, nonEmpty := e.poolResolve(st, p, true)
			if nonEmpty {
				p = q
				if v := e.poolTake(st, th, p); v != nil {
					if iv, ok := v.(IfaceV); ok {
						e.poolMark(st, iv, false)
						if ip, ok := iv.V.(Ptr); ok && e.Cfg.Race && st.Multi {
							e.acquire(st, th, shadowKey{ip.Obj, "pool"})
						}
					}
					return v
				}
			} else {
				// an empty shard: New is nil for every shard of the repository's pools; check one
				p = Ptr{Obj: p.Obj, Path: pathAppend(p.Path, 0)}
			}
		}
		pt := deref(c.fn.Params[0].Type()).Underlying().(*types.Struct)
		for i := 0; i < pt.NumFields(); i++ {
			if pt.Field(i).Name() == "New" {
				nf := loadPath(st.obj(p.Obj).V, pathAppend(p.Path, i)).(FuncV)
				if nf.Fn == nil {
					return IfaceV{}
				}
				// tail call: the result of New() is delivered to the call site of Get
				if c.instr == nil {
					return IfaceV{}
				}
				e.pushFrame(st, th, nf.Fn, nf.Bind, nil, false)
				c.pushed = true
				return nil
			}
		}
		return IfaceV{}
	})
	e.stub("(*sync.Pool).Put", func(e *Engine, st *State, th *Thread, c *callCtx) Value {
		p := c.args[0].(Ptr)
		x := c.args[1].(IfaceV)
		if e.PoolPrecise {
			p, _ = e.poolResolve(st, p, false) // may fork (the instruction is re-executed): no state change before it
			e.poolMark(st, x, true)
			e.poolPut(st, th, p, x)
			if ip, ok := x.V.(Ptr); ok && e.Cfg.Race && st.Multi {
				e.release(st, th, shadowKey{ip.Obj, "pool"}, false) // Put(x) synchronises before the Get that returns x
			}
			// the object is up for grabs the moment Put has stored it: whatever the caller does next is a separate step
			th.ParkNext = true
			return nil
		}
		e.poolMark(st, x, true)
		e.havoc(st, th, x)
		return nil
	})

	// ---- fmt / os ----------------------------------------------------------
	e.stub("fmt.Errorf", stubErrorf)
	opaque := func(e *Engine, st *State, th *Thread, c *callCtx) Value {
		s := "<formatted>"
		if f, ok := c.args[0].(StrV); ok {
			if cs, ok := f.constString(); ok {
				s = cs
			}
		}
		return StrV{Arr: tb.ArrLit(s), Off: tb.Int64(0), Len: tb.Int64(int64(len(s)))}
	}
	e.stub("fmt.Sprintf", opaque)
	e.stub("fmt.Sprint", func(e *Engine, st *State, th *Thread, c *callCtx) Value {
		s := "<sprint>"
		return StrV{Arr: tb.ArrLit(s), Off: tb.Int64(0), Len: tb.Int64(int64(len(s)))}
	})
	e.stub("fmt.Sprintln", func(e *Engine, st *State, th *Thread, c *callCtx) Value {
		s := "<sprintln>"
		return StrV{Arr: tb.ArrLit(s), Off: tb.Int64(0), Len: tb.Int64(int64(len(s)))}
	})
	nop2 := func(e *Engine, st *State, th *Thread, c *callCtx) Value {
		return TupleV{tb.Int64(0), IfaceV{}}
	}
	for _, n := range []string{"fmt.Fprintln", "fmt.Fprintf", "fmt.Fprint", "fmt.Println", "fmt.Printf", "fmt.Print"} {
		e.stub(n, nop2)
	}

	// ---- strings.Builder / bytealg --------------------------------------------
	e.stub("(*strings.Builder).copyCheck", func(e *Engine, st *State, th *Thread, c *callCtx) Value { return nil })
	e.stub("(*strings.Builder).String", func(e *Engine, st *State, th *Thread, c *callCtx) Value {
		p := c.args[0].(Ptr)
		sv := e.load(st, th, Ptr{Obj: p.Obj, Path: pathAppend(p.Path, 1)}, token.NoPos).(SliceV)
		arr, off, ln := e.bytesOf(st, sv)
		return StrV{Arr: arr, Off: off, Len: ln}
	})
	e.stub("internal/bytealg.MakeNoZero", func(e *Engine, st *State, th *Thread, c *callCtx) Value {
		n := c.args[0].(*Term)
		id := e.allocBytes(st, tb.ArrZero(), n)
		return SliceV{Obj: id, Off: tb.Int64(0), Len: n, Cap: n}
	})
	e.stub("internal/bytealg.IndexByte", func(e *Engine, st *State, th *Thread, c *callCtx) Value {
		arr, off, ln := e.bytesOf(st, c.args[0])
		b := c.args[1].(*Term)
		n := e.constOf(ln, "IndexByte length")
		r := tb.Int64(-1)
		for i := int64(n) - 1; i >= 0; i-- {
			r = tb.Ite(tb.Eq(tb.ArrRead(arr, tb.Add(off, tb.Int64(i))), b), tb.Int64(i), r)
		}
		return r
	})
	e.stubTab["internal/bytealg.IndexByteString"] = e.stubTab["internal/bytealg.IndexByte"]
	e.stub("runtime.KeepAlive", func(e *Engine, st *State, th *Thread, c *callCtx) Value { return nil })
	e.stub("runtime.Gosched", func(e *Engine, st *State, th *Thread, c *callCtx) Value { return nil })

	poison := func(e *Engine, st *State, th *Thread, c *callCtx) Value {
		return e.poisonFor(c.fn.Signature.Results(), "stubbed "+c.fn.String())
	}
	e.stub("internal/reflectlite.TypeOf", poison)
	e.stub("reflect.TypeOf", poison)
	e.stub("reflect.ValueOf", poison)

	// ---- encoding/json contract stub (C16) -------------------------------------
	e.stub("(*encoding/json.Decoder).Decode", func(e *Engine, st *State, th *Thread, c *callCtx) Value {
		helper := e.vrt.Func("jsonDecode")
		if helper == nil {
			panic(&Unsupported{"vrt.jsonDecode missing"})
		}
		dec := c.args[0].(Ptr)
		dt := deref(c.fn.Params[0].Type()).Underlying().(*types.Struct)
		var r Value
		var pending Ptr
		useNumber, disallow := tb.False, tb.False
		root := loadPath(st.obj(dec.Obj).V, dec.Path).(*StructV)
		for i := 0; i < dt.NumFields(); i++ {
			switch dt.Field(i).Name() {
			case "r":
				r = root.F[i]
			case "buf":
				pending = Ptr{Obj: dec.Obj, Path: pathAppend(dec.Path, i)}
			case "d":
				ds := root.F[i].(*StructV)
				dst := dt.Field(i).Type().Underlying().(*types.Struct)
				for j := 0; j < dst.NumFields(); j++ {
					switch dst.Field(j).Name() {
					case "useNumber":
						useNumber = ds.F[j].(*Term)
					case "disallowUnknownFields":
						disallow = ds.F[j].(*Term)
					}
				}
			}
		}
		if c.instr == nil {
			panic(&Unsupported{"deferred json Decode"})
		}
		e.pushFrame(st, th, helper, nil, []Value{r, pending, useNumber, disallow, c.args[1]}, false)
		c.pushed = true
		return nil
	})
	e.stub("(*encoding/json.Encoder).Encode", func(e *Engine, st *State, th *Thread, c *callCtx) Value {
		helper := e.vrt.Func("jsonEncode")
		if helper == nil || c.instr == nil {
			panic(&Unsupported{"vrt.jsonEncode missing"})
		}
		enc := c.args[0].(Ptr)
		et := deref(c.fn.Params[0].Type()).Underlying().(*types.Struct)
		root := loadPath(st.obj(enc.Obj).V, enc.Path).(*StructV)
		var w Value
		for i := 0; i < et.NumFields(); i++ {
			if et.Field(i).Name() == "w" {
				w = root.F[i]
			}
		}
		e.pushFrame(st, th, helper, nil, []Value{w, c.args[1]}, false)
		c.pushed = true
		return nil
	})
	e.stub("encoding/json.Unmarshal", func(e *Engine, st *State, th *Thread, c *callCtx) Value {
		helper := e.vrt.Func("jsonUnmarshal")
		if helper == nil || c.instr == nil {
			panic(&Unsupported{"vrt.jsonUnmarshal missing"})
		}
		e.pushFrame(st, th, helper, nil, []Value{c.args[0], c.args[1]}, false)
		c.pushed = true
		return nil
	})
	e.stub(V+"jsonParse", func(e *Engine, st *State, th *Thread, c *callCtx) Value {
		arr, off, ln := e.bytesOf(st, c.args[0])
		ok := e.freshVar(st, th, 0, "jsonok")
		st.logNondet(NondetRec{Kind: "bool", T: ok})
		id := st.newObj(&Object{Kind: OMap, Harness: true, Site: "json model"})
		o := st.Heap[id]
		str := func(s string) Value { return StrV{Arr: tb.ArrLit(s), Off: tb.Int64(0), Len: tb.Int64(int64(len(s)))} }
		strT := types.Typ[types.String]
		boolT := types.Typ[types.Bool]
		o.Keys = []Value{str("__frame__"), str("__useNumber__"), str("__disallow__")}
		o.Vals = []Value{IfaceV{T: strT, V: StrV{Arr: arr, Off: off, Len: ln}}, IfaceV{T: boolT, V: c.args[1]}, IfaceV{T: boolT, V: c.args[2]}}
		return TupleV{MapV{Obj: id}, ok}
	})
	e.stub("encoding/json.Marshal", func(e *Engine, st *State, th *Thread, c *callCtx) Value {
		ok := e.freshVar(st, th, 0, "marshalok")
		st.logNondet(NondetRec{Kind: "bool", T: ok})
		st.JSONLastArg = c.args[0]
		if !e.decide(st, ok) {
			st.JSONLastMarshal = nil
			et := e.namedType("errors", "errorString")
			msg := "json: unsupported value"
			eid := e.allocCells(st, et, &StructV{F: []Value{StrV{Arr: tb.ArrLit(msg), Off: tb.Int64(0), Len: tb.Int64(int64(len(msg)))}}})
			return TupleV{SliceV{Off: tb.Int64(0), Len: tb.Int64(0), Cap: tb.Int64(0)}, IfaceV{T: types.NewPointer(et), V: Ptr{Obj: eid}}}
		}
		n := e.freshVar(st, th, 64, "marshallen")
		st.PC = tb.And(st.PC, tb.And(tb.SLe(tb.Int64(2), n), tb.SLe(n, tb.Int64(4096))))
		name := e.freshVar(st, th, 8, "marshal").Name
		id := e.allocBytes(st, tb.ArrSym(name), n)
		sv := SliceV{Obj: id, Off: tb.Int64(0), Len: n, Cap: n}
		st.JSONLastMarshal = sv
		return TupleV{sv, IfaceV{}}
	})
	e.stub(V+"JSONLastMarshal", func(e *Engine, st *State, th *Thread, c *callCtx) Value {
		if st.JSONLastMarshal == nil {
			return SliceV{Off: tb.Int64(0), Len: tb.Int64(0), Cap: tb.Int64(0)}
		}
		return st.JSONLastMarshal
	})
	e.stub(V+"JSONLastArg", func(e *Engine, st *State, th *Thread, c *callCtx) Value {
		if st.JSONLastArg == nil {
			return IfaceV{}
		}
		return st.JSONLastArg
	})

	// ---- net/url (C13: opaque, well-formed result) --------------------------------
	e.stub("net/url.Parse", func(e *Engine, st *State, th *Thread, c *callCtx) Value {
		ut := e.namedType("net/url", "URL")
		zv := e.zero(ut).(*StructV)
		su := ut.Underlying().(*types.Struct)
		nv := &StructV{F: append([]Value(nil), zv.F...)}
		lit := func(s string) Value { return StrV{Arr: tb.ArrLit(s), Off: tb.Int64(0), Len: tb.Int64(int64(len(s)))} }
		for i := 0; i < su.NumFields(); i++ {
			switch su.Field(i).Name() {
			case "Scheme":
				nv.F[i] = lit("zz")
			case "Host":
				nv.F[i] = lit("zz:1")
			case "Path":
				nv.F[i] = lit("/")
			}
		}
		id := e.allocCells(st, ut, nv)
		return TupleV{Ptr{Obj: id}, IfaceV{}}
	})

	// ---- time -------------------------------------------------------------------
	e.initTimeStubs()
}

func (e *Engine) atomicLoad(st *State, th *Thread, p Ptr) Value {
	if p.Obj == 0 {
		e.raiseRuntime(st, th, "invalid memory address or nil pointer dereference")
	}
	o := st.obj(p.Obj)
	if e.Cfg.Race {
		e.hbAtomic(st, th, p, false)
	}
	return loadPath(o.V, p.Path)
}

func (e *Engine) atomicStore(st *State, th *Thread, p Ptr, v Value) {
	if p.Obj == 0 {
		e.raiseRuntime(st, th, "invalid memory address or nil pointer dereference")
	}
	o := st.wobj(p.Obj)
	if e.Cfg.Race {
		e.hbAtomic(st, th, p, true)
	}
	o.V = storePath(o.V, p.Path, v)
}

// havoc replaces the contents of the byte buffer reachable from x (a *[]byte or *bytes.Buffer) by arbitrary bytes.
func (e *Engine) havoc(st *State, th *Thread, x IfaceV) {
	p, ok := x.V.(Ptr)
	if !ok || p.Obj == 0 {
		return
	}
	v := loadPath(st.obj(p.Obj).V, p.Path)
	var sv SliceV
	switch y := v.(type) {
	case SliceV:
		sv = y
	case *StructV: // bytes.Buffer{buf, off, lastRead}
		if len(y.F) > 0 {
			if s, ok := y.F[0].(SliceV); ok {
				sv = s
			}
		}
	}
	if sv.Obj == 0 {
		return
	}
	o := st.wobj(sv.Obj)
	if o.Kind != OBytes {
		return
	}
	st.NFresh++
	o.Arr = e.tb.ArrSym("hv" + itoa(st.NFresh))
	e.Stats.Havocs++
}

// stubErrorf models fmt.Errorf: the message is opaque; %w wraps the matching error argument.
func stubErrorf(e *Engine, st *State, th *Thread, c *callCtx) Value {
	tb := e.tb
	format, _ := c.args[0].(StrV).constString()
	var args []Value
	if sv, ok := c.args[1].(SliceV); ok && sv.Obj != 0 {
		args = e.sliceElems(st, sv)
	}
	// locate %w
	wrapIdx := -1
	ai := 0
	for i := 0; i < len(format); i++ {
		if format[i] != '%' {
			continue
		}
		i++
		for i < len(format) && strings.ContainsRune("+-# 0123456789.*", rune(format[i])) {
			i++
		}
		if i >= len(format) {
			break
		}
		if format[i] == '%' {
			continue
		}
		if format[i] == 'w' && wrapIdx < 0 {
			wrapIdx = ai
		}
		ai++
	}
	msg := StrV{Arr: tb.ArrLit(format), Off: tb.Int64(0), Len: tb.Int64(int64(len(format)))}
	if wrapIdx >= 0 && wrapIdx < len(args) {
		if iv, ok := args[wrapIdx].(IfaceV); ok && iv.T != nil {
			wt := e.namedType("fmt", "wrapError")
			id := e.allocCells(st, wt, &StructV{F: []Value{msg, iv}})
			return IfaceV{T: types.NewPointer(wt), V: Ptr{Obj: id}}
		}
	}
	et := e.namedType("errors", "errorString")
	id := e.allocCells(st, et, &StructV{F: []Value{msg}})
	return IfaceV{T: types.NewPointer(et), V: Ptr{Obj: id}}
}

func (e *Engine) namedType(pkg, name string) types.Type {
	key := pkg + "." + name
	if t, ok := e.typeCache[key]; ok {
		return t
	}
	p := e.Prog.ImportedPackage(pkg)
	if p == nil {
		panic(&Unsupported{"package " + pkg + " not loaded"})
	}
	obj := p.Pkg.Scope().Lookup(name)
	if obj == nil {
		panic(&Unsupported{"type " + key + " not found"})
	}
	e.typeCache[key] = obj.Type()
	return obj.Type()
}

// SetRedirects wires stdlib functions to their Go models in the vrt package.
func (e *Engine) SetRedirects(vrt *ssa.Package) {
	e.vrt = vrt
	m := map[string]string{
		"errors.As":               "ErrorsAs",
		"errors.Is":               "ErrorsIs",
		"context.Background":      "CtxBackground",
		"context.TODO":            "CtxBackground",
		"context.WithCancel":      "CtxWithCancel",
		"context.WithValue":       "CtxWithValue",
		"context.WithDeadline":    "CtxWithDeadline",
		"context.WithTimeout":     "CtxWithTimeout",
		"(*sync.Map).Load":        "SyncMapLoad",
		"(*sync.Map).Store":       "SyncMapStore",
		"(*sync.Map).LoadOrStore": "SyncMapLoadOrStore",
		"(*sync.Map).Delete":      "SyncMapDelete",
		"(*sync.Map).Range":       "SyncMapRange",
		"(*sync.Once).Do":         "OnceDo",
		"(*sync.WaitGroup).Add":   "WgAdd",
		"(*sync.WaitGroup).Done":  "WgDone",
		"(*sync.WaitGroup).Wait":  "WgWait",
	}
	for from, to := range m {
		if f := vrt.Func(to); f != nil {
			e.redirect[from] = f
		}
	}
}
