package sym

import (
	"go/types"

	"golang.org/x/tools/go/ssa"
)

// ---------------------------------------------------------------------------
// visible operations

// isVisible reports whether instr is a scheduling point.
func (e *Engine) isVisible(st *State, th *Thread, fr *Frame, instr ssa.Instruction) bool {
	switch in := instr.(type) {
	case *ssa.Send, *ssa.Select:
		return true
	case *ssa.UnOp:
		return in.Op.String() == "<-"
	case *ssa.Call:
		cc := &in.Call
		if b, ok := cc.Value.(*ssa.Builtin); ok {
			switch b.Name() {
			case "close":
				return true
			case "len", "cap":
				_, isChan := cc.Args[0].Type().Underlying().(*types.Chan)
				return isChan
			}
			return false
		}
		if cc.IsInvoke() {
			return false // stubs are never reached through dynamic dispatch
		}
		if fn, ok := cc.Value.(*ssa.Function); ok {
			return e.isVisibleFn(fnKey(fn))
		}
		return false
	}
	return false
}

// isVisibleFn: scheduling points by name. With the precise sync.Pool model the pool is shared state like any other
// synchronisation object, so Get and Put are scheduling points (with the abstract model nothing is shared through it).
func (e *Engine) isVisibleFn(key string) bool {
	if e.visibleFn[key] {
		return true
	}
	return e.PoolPrecise && (key == "(*sync.Pool).Get" || key == "(*sync.Pool).Put")
}

func (e *Engine) isVisibleCall(st *State, th *Thread, fv FuncV, args []Value) bool {
	if fv.Blt != nil {
		return fv.Blt.Name() == "close"
	}
	if fv.Fn != nil {
		return e.isVisibleFn(fnKey(fv.Fn))
	}
	return false
}

// ---------------------------------------------------------------------------
// channels

func (e *Engine) chanSendReady(st *State, c ChanV) bool {
	if c.Obj == 0 {
		return false
	}
	o := st.obj(c.Obj)
	if o.Closed {
		return true // will panic
	}
	if o.Cap == 0 {
		return e.recvWaiting(st, c) >= 0
	}
	return len(o.Buf) < o.Cap
}

func (e *Engine) chanRecvReady(st *State, c ChanV) bool {
	if c.Obj == 0 {
		return false
	}
	o := st.obj(c.Obj)
	return o.Closed || len(o.Buf) > 0
}

// recvWaiting finds a parked thread whose pending operation is a plain receive on c (for unbuffered rendezvous).
func (e *Engine) recvWaiting(st *State, c ChanV) int {
	for i, t := range st.Threads {
		if i == st.Cur || t.Status != TRun || !t.Parked {
			continue
		}
		fr := t.top()
		if fr == nil || fr.Mode != 0 {
			continue
		}
		if u, ok := fr.Block.Instrs[fr.IP].(*ssa.UnOp); ok && u.Op.String() == "<-" {
			if cv, ok := e.get(st, fr, u.X).(ChanV); ok && cv.Obj == c.Obj {
				return i
			}
		}
	}
	return -1
}

func (e *Engine) execSend(st *State, th *Thread, fr *Frame, in *ssa.Send) {
	c := e.get(st, fr, in.Chan).(ChanV)
	v := e.get(st, fr, in.X)
	if !e.chanSendReady(st, c) {
		e.blockForever(st, th, "send")
		return
	}
	e.chanSend(st, th, c, v)
	e.advance(st, th)
}

func (e *Engine) chanSend(st *State, th *Thread, c ChanV, v Value) {
	o := st.wobj(c.Obj)
	if o.Closed {
		e.raiseRuntime(st, th, "send on closed channel")
	}
	if o.Cap == 0 {
		// rendezvous with a parked receiver
		ri := e.recvWaiting(st, c)
		rt := st.Threads[ri]
		rfr := rt.top()
		u := rfr.Block.Instrs[rfr.IP].(*ssa.UnOp)
		if rfr.Gen != st.Gen {
			rfr = rfr.clone(st.Gen)
			rt.Frames[len(rt.Frames)-1] = rfr
		}
		var res Value = v
		if u.CommaOk {
			res = TupleV{v, e.tb.True}
		}
		rfr.Regs[rfr.Info.idx[u]] = res
		rfr.IP++
		rt.Parked = false
		if e.Cfg.Race {
			e.hbRendezvous(st, th, rt)
		}
		return
	}
	o.Buf = append(o.Buf, v)
	if e.Cfg.Race {
		e.hbChanSend(st, th, o, c.Obj)
	}
}

func (e *Engine) execRecv(st *State, th *Thread, fr *Frame, in *ssa.UnOp, c ChanV) {
	if !e.chanRecvReady(st, c) {
		e.blockForever(st, th, "recv")
		return
	}
	v, ok := e.chanRecv(st, th, c, in.X.Type().Underlying().(*types.Chan).Elem())
	if in.CommaOk {
		e.setReg(st, th, in, TupleV{v, e.tb.Bool(ok)})
	} else {
		e.setReg(st, th, in, v)
	}
	e.advance(st, th)
}

func (e *Engine) chanRecv(st *State, th *Thread, c ChanV, elem types.Type) (Value, bool) {
	o := st.wobj(c.Obj)
	if len(o.Buf) > 0 {
		v := o.Buf[0]
		o.Buf = append([]Value(nil), o.Buf[1:]...)
		if e.Cfg.Race {
			e.hbChanRecv(st, th, o, c.Obj, false)
		}
		return v, true
	}
	// closed
	if e.Cfg.Race {
		e.hbChanRecv(st, th, o, c.Obj, true)
	}
	return e.zero(elem), false
}

func (e *Engine) chanClose(st *State, th *Thread, c ChanV) {
	if c.Obj == 0 {
		e.raiseRuntime(st, th, "close of nil channel")
	}
	o := st.wobj(c.Obj)
	if o.Closed {
		e.raiseRuntime(st, th, "close of closed channel")
	}
	o.Closed = true
	if e.Cfg.Race {
		e.hbChanClose(st, th, o, c.Obj)
	}
}

// blockForever is reached when a blocking operation is executed while not enabled
// (only possible in single-threaded mode or inside vrt.Atomic): the thread can never proceed.
func (e *Engine) blockForever(st *State, th *Thread, what string) {
	if st.Multi && th.NoPreempt == 0 {
		// should have been parked by the scheduler
		th.Parked = true
		th.Granted = false
		panic(ctlPark{})
	}
	th.Parked = true
	th.Granted = false
	st.Multi = true // from now on the scheduler decides (it will find no enabled thread => deadlock)
	panic(ctlPark{})
}

type ctlPark struct{}

// selectReady returns the indices of ready cases.
func (e *Engine) selectReady(st *State, fr *Frame, in *ssa.Select) []int {
	var ready []int
	for i, s := range in.States {
		c := e.get(st, fr, s.Chan).(ChanV)
		if s.Dir == types.SendOnly {
			if e.chanSendReady(st, c) {
				ready = append(ready, i)
			}
		} else {
			if e.chanRecvReady(st, c) {
				ready = append(ready, i)
			}
		}
	}
	return ready
}

func (e *Engine) execSelect(st *State, th *Thread, fr *Frame, in *ssa.Select) {
	tb := e.tb
	ready := e.selectReady(st, fr, in)
	choice := -1
	if len(ready) == 0 {
		if in.Blocking {
			e.blockForever(st, th, "select")
			return
		}
	} else if len(ready) == 1 {
		choice = ready[0]
	} else {
		// several ready cases: Go picks uniformly; the scheduler explores every alternative.
		if th.Granted && th.Alt >= 0 && th.Alt < len(ready) {
			choice = ready[th.Alt]
		} else {
			// single-threaded mode: nondeterministic choice variable
			k := e.chooseN(st, th, len(ready), "select")
			choice = ready[k]
		}
	}
	// result tuple: (index, recvOk, r_0, ..., r_{n-1}) for receive cases
	tup := in.Type().(*types.Tuple)
	res := make(TupleV, tup.Len())
	res[0] = tb.Int64(int64(choice))
	res[1] = tb.False
	ri := 2
	for i, s := range in.States {
		if s.Dir == types.RecvOnly {
			res[ri] = e.zero(tup.At(ri).Type())
			if i == choice {
				c := e.get(st, fr, s.Chan).(ChanV)
				v, ok := e.chanRecv(st, th, c, tup.At(ri).Type())
				res[ri] = v
				res[1] = tb.Bool(ok)
			}
			ri++
		} else if i == choice {
			c := e.get(st, fr, s.Chan).(ChanV)
			e.chanSend(st, th, c, e.get(st, fr, s.Send))
		}
	}
	e.setReg(st, th, in, res)
	e.advance(st, th)
}

// chooseN forks n ways and returns the chosen index on this path (concrete).
func (e *Engine) chooseN(st *State, th *Thread, n int, what string) int {
	if n <= 1 {
		return 0
	}
	v := e.freshVar(st, th, 64, "ch")
	st.EnvChoices = st.snapEnv + 1
	return e.forkFresh(st, v, n)
}

func (e *Engine) assumeQuiet(st *State, c *Term) {
	st.PC = e.tb.And(st.PC, c)
}

// freshVar creates a deterministic, path-unique variable.
func (e *Engine) freshVar(st *State, th *Thread, w uint8, kind string) *Term {
	var name string
	if th.Harness || th.ID == 0 {
		name = kind + "_" + sanitize(th.Name) + "_" + itoa(th.NNondet)
		th.NNondet++
	} else {
		name = kind + "_x" + itoa(st.NFresh)
		st.NFresh++
	}
	return e.tb.Var(w, name)
}

func sanitize(s string) string {
	b := []byte(s)
	for i, c := range b {
		if !(c >= 'a' && c <= 'z' || c >= 'A' && c <= 'Z' || c >= '0' && c <= '9' || c == '_') {
			b[i] = '_'
		}
	}
	return string(b)
}
