package sym

// Precise sync.Pool model (C19): Get may return any object previously Put into the same
// sync.Pool and not yet handed out; the choice (including "miss") is nondeterministic.
// The per-pool item list is kept in the pool's `local` field cell.

func (e *Engine) poolItems(st *State, p Ptr) (TupleV, string) {
	path := pathAppend(p.Path, 1) // field `local`
	v := loadPath(st.obj(p.Obj).V, path)
	if t, ok := v.(TupleV); ok {
		return t, path
	}
	return nil, path
}

func (e *Engine) poolPut(st *State, th *Thread, p Ptr, x IfaceV) {
	items, path := e.poolItems(st, p)
	n := append(append(TupleV(nil), items...), x)
	o := st.wobj(p.Obj)
	o.V = storePath(o.V, path, n)
	e.Stats.PoolPuts++
}

// poolResolve concretises a lazy pool pointer. For Get, only shards that hold items are
// distinguished; all empty shards behave identically (miss), so they are not enumerated.
func (e *Engine) poolResolve(st *State, p Ptr, forGet bool) (Ptr, bool) {
	if p.Sym == nil {
		return p, true
	}
	if forGet {
		for k := 0; k < p.SymN; k++ {
			q := Ptr{Obj: p.Obj, Path: pathAppend(p.Path, k)}
			if items, _ := e.poolItems(st, q); len(items) > 0 {
				if e.decide(st, e.tb.Eq(p.Sym, e.tb.Const(p.Sym.W, uint64(k)))) {
					return q, true
				}
			}
		}
		return p, false // some empty shard
	}
	return e.resolvePtr(st, p), true
}

func (e *Engine) poolTake(st *State, th *Thread, p Ptr) Value {
	items, path := e.poolItems(st, p)
	if len(items) == 0 {
		return nil
	}
	k := e.chooseN(st, th, len(items)+1, "sync.Pool.Get")
	if k == len(items) {
		return nil // miss
	}
	x := items[k]
	n := append(append(TupleV(nil), items[:k]...), items[k+1:]...)
	o := st.wobj(p.Obj)
	o.V = storePath(o.V, path, n)
	e.Stats.PoolHits++
	return x
}

// poolBacking finds the byte object behind a pooled value (*[]byte or *bytes.Buffer).
func (e *Engine) poolBacking(st *State, x IfaceV) ObjID {
	p, ok := x.V.(Ptr)
	if !ok || p.Obj == 0 {
		return 0
	}
	switch y := loadPath(st.obj(p.Obj).V, p.Path).(type) {
	case SliceV:
		return y.Obj
	case *StructV: // bytes.Buffer{buf, off, lastRead}
		if len(y.F) > 0 {
			if s, ok := y.F[0].(SliceV); ok {
				return s.Obj
			}
		}
	}
	return 0
}

// poolMark keeps the "is in a pool" flag of pooled buffers. A buffer that is Put while it is already in a pool
// (no Get handed it out in between) can be obtained by two users at once: reported as a violation of exclusive
// ownership (label c10-pooled-buffer-returned-to-the-pool-twice), in both pool models.
func (e *Engine) poolMark(st *State, x IfaceV, put bool) {
	id := e.poolBacking(st, x)
	if id == 0 {
		return
	}
	if st.obj(id).Kind != OBytes {
		return
	}
	if put && st.obj(id).InPool {
		e.reportViolation(st, "c10-pooled-buffer-returned-to-the-pool-twice",
			"a buffer allocated at "+st.obj(id).Site+" is Put into a sync.Pool while it is already in one: two later Gets can hand the same memory to two users", nil)
		return
	}
	st.wobj(id).InPool = put
}
