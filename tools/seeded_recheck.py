#!/usr/bin/env python3
"""Re-runs the quick checks recorded in every /verif/seeded/*/meta.json against the stored change
(git -C /repo apply; ./check <id> quick; git -C /repo checkout -- .) and refreshes meta.json.
usage: seeded_recheck.py [name-prefix ...]   (nothing else may use /repo meanwhile)"""
import glob, json, os, subprocess, sys, time
want = sys.argv[1:]
assert subprocess.run("git -C /repo status --porcelain", shell=True, capture_output=True, text=True).stdout.strip() == "", "/repo not clean"
for d in sorted(glob.glob("/verif/seeded/*/")):
    name = os.path.basename(d[:-1])
    if want and not any(name.startswith(w) for w in want):
        continue
    meta = json.load(open(d + "meta.json"))
    ids = list(meta.get("checks", {}).keys()) or [meta["property"]]
    r = subprocess.run(f"git -C /repo apply {d}patch.diff", shell=True, capture_output=True, text=True)
    assert r.returncode == 0, (name, r.stderr)
    try:
        for cid in ids:
            t0 = time.time()
            try:
                p = subprocess.run(f"./check {cid} quick", shell=True, cwd="/verif", capture_output=True, text=True, timeout=1200)
                rc, out = p.returncode, p.stdout + p.stderr
            except subprocess.TimeoutExpired:
                rc, out = 124, "timeout"
            line = next((l for l in out.splitlines() if l.startswith(("VIOLATION", "INCONCLUSIVE"))), "")
            meta.setdefault("checks", {})[cid] = {"exit": rc, "secs": int(time.time() - t0), "line": line[:300], "detail": meta.get("checks", {}).get(cid, {}).get("detail", "")}
    finally:
        subprocess.run("git -C /repo checkout -- .", shell=True)
        subprocess.run("git -C /repo clean -fdq", shell=True)
    meta["caught_by"] = [c for c, v in meta["checks"].items() if v["exit"] == 1]
    json.dump(meta, open(d + "meta.json", "w"), indent=1)
    print(name, {c: v["exit"] for c, v in meta["checks"].items()}, flush=True)
