package sym

import (
	"fmt"
	"sort"
)

// checkAssert discharges one assertion instance: is (pc ∧ ¬cond) satisfiable?
func (e *Engine) checkAssert(st *State, th *Thread, cond *Term, label string) {
	as := e.Asserts[label]
	if as == nil {
		as = &AssertStat{Label: label}
		e.Asserts[label] = as
	}
	as.Checked++
	e.Stats.Asserts++
	if cond.IsTrue() {
		return
	}
	as.Solver++
	e.Stats.AssertQ++
	neg := e.tb.Not(cond)
	violated := e.findViolations(st, neg, label, "assertion "+label+" fails at "+e.where(th))
	// continue the path under the assumption that the assertion holds
	if cond.IsFalse() {
		panic(killPath{"assert false"})
	}
	st.PC = e.tb.And(st.PC, cond)
	if violated {
		if r := e.sol.Check(st.PC, nil); r == ResUnsat {
			panic(killPath{"assert: no passing continuation"})
		}
	}
}

// reportViolation records a violation whose reachability condition is the current path condition (∧ extra).
func (e *Engine) reportViolation(st *State, label, msg string, extra *Term) {
	as := e.Asserts[label]
	if as == nil {
		as = &AssertStat{Label: label}
		e.Asserts[label] = as
	}
	as.Checked++
	as.Solver++
	if extra == nil {
		extra = e.tb.True
	}
	e.findViolations(st, extra, label, msg)
}

func (e *Engine) facetList(st *State) ([]string, []*Term) {
	var names []string
	var terms []*Term
	seen := map[string]bool{}
	for f := st.Facets; f != nil; f = f.prev {
		if seen[f.s] {
			continue
		}
		seen[f.s] = true
		names = append(names, f.s)
		terms = append(terms, f.t)
	}
	return names, terms
}

// findViolations enumerates models of (pc ∧ bad), filtering the ones listed as known findings.
func (e *Engine) findViolations(st *State, bad *Term, label, msg string) (violated bool) {
	tb := e.tb
	spc := st.SPC
	if spc == nil || st.SPCN > 20000 {
		// very large merged schedule formulas are left out of the model query: the reported schedule is then the
		// one recorded for the state (a genuine path to it), not one chosen by the solver
		spc = tb.True
	}
	fnames, fterms := e.facetList(st)
	recs := st.nondetList()
	var extras []*Term
	extras = append(extras, fterms...)
	for _, r := range recs {
		if r.T != nil {
			extras = append(extras, r.T)
		}
	}
	excl := tb.True
	for iter := 0; iter < 24; iter++ {
		q := tb.And(bad, excl)
		if q.IsFalse() {
			return violated
		}
		if res := e.sol.Check(st.PC, q); res == ResUnknown {
			e.inconclusive("solver unknown on assertion %s", label)
			return violated
		} else if res == ResUnsat {
			return violated
		}
		violated = true
		// violated: prefer a counterexample with small buffers (replayable natively)
		var m *Model
		for _, lim := range []int64{64, 4096, 1 << 20, -1} {
			small := tb.True
			if lim >= 0 {
				any := false
				for _, r := range recs {
					if r.Kind == "bytes" && !r.T.IsConst() {
						small = tb.And(small, tb.SLe(r.T, tb.Int64(lim)))
						any = true
					}
				}
				if !any {
					continue
				}
			}
			// the schedule constraints are conjoined only now (they are satisfiable by construction and share no
			// variable with the data constraints): the model then also fixes the schedule variables s_k
			r2, m2 := e.sol.CheckModel(st.PC, tb.And(tb.And(q, small), spc), extras...)
			if r2 == ResSat {
				m = m2
				break
			}
		}
		if m == nil {
			e.inconclusive("solver could not reproduce a model for assertion %s", label)
			return violated
		}
		v := &Violation{Label: label, Msg: msg, Facets: map[string]int64{}, state: st}
		fv, err := m.Eval(fterms)
		if err != nil {
			m.Release()
			e.inconclusive("model evaluation failed: %v", err)
			return violated
		}
		for i, n := range fnames {
			v.Facets[n] = sext(fv[i], fterms[i].W)
		}
		v.Inputs = e.extractInputs(m, recs)
		m.Release()
		v.Sched = e.schedList(st)
		v.EnvChoices = st.EnvChoices
		v.EngineOnly = st.EngineOnly
		if th := st.thread(); th != nil {
			v.Pos = e.where(th)
		}
		// known finding?
		var kf *KnownFinding
		for i := range e.Known {
			k := &e.Known[i]
			if k.Label != label {
				continue
			}
			match := true
			for fn, fvv := range k.Facets {
				if got, ok := v.Facets[fn]; !ok || got != fvv {
					match = false
					break
				}
			}
			if match {
				kf = k
				break
			}
		}
		e.Asserts[label].Violated++
		if kf == nil {
			e.addViolation(v)
			return violated
		}
		v.Known = true
		v.KnownAs = kf.What
		e.addViolation(v)
		if len(kf.Facets) == 0 {
			return violated // the whole label is a known finding
		}
		// exclude this facet combination and look for a different violation
		c := tb.True
		for fn, fvv := range kf.Facets {
			for i, n := range fnames {
				if n == fn {
					c = tb.And(c, tb.Eq(fterms[i], tb.Const(fterms[i].W, uint64(fvv))))
				}
			}
		}
		excl = tb.And(excl, tb.Not(c))
	}
	return violated
}

func (e *Engine) addViolation(v *Violation) {
	key := v.Label + fmt.Sprint(sortedFacets(v.Facets))
	for _, o := range e.Viols {
		if o.Label+fmt.Sprint(sortedFacets(o.Facets)) == key {
			return
		}
	}
	e.Viols = append(e.Viols, v)
}

func sortedFacets(m map[string]int64) []string {
	var out []string
	for k, v := range m {
		out = append(out, fmt.Sprintf("%s=%d", k, v))
	}
	sort.Strings(out)
	return out
}

// extractInputs evaluates the nondeterministic inputs of the path in the model (for replay).
func (e *Engine) extractInputs(m *Model, recs []NondetRec) []ReplayVal {
	tb := e.tb
	out := make([]ReplayVal, 0, len(recs))
	var ts []*Term
	for _, r := range recs {
		ts = append(ts, r.T)
	}
	vals, err := m.Eval(ts)
	if err != nil {
		e.inconclusive("model evaluation failed: %v", err)
		return nil
	}
	for i, r := range recs {
		rv := ReplayVal{Kind: r.Kind, Name: r.T.Name}
		switch r.Kind {
		case "bytes":
			n := int64(vals[i])
			rv.Int = n
			if n > 1<<16 {
				n = 1 << 16 // materialise a prefix only
			}
			if n > 0 {
				idx := make([]*Term, n)
				for j := int64(0); j < n; j++ {
					idx[j] = tb.ArrRead(r.Arr, tb.Int64(j))
				}
				bv, err := m.Eval(idx)
				if err != nil {
					e.inconclusive("model evaluation failed: %v", err)
					return nil
				}
				rv.Bytes = make([]int, n)
				for j := range bv {
					rv.Bytes[j] = int(bv[j])
				}
			}
		default:
			rv.Int = sext(vals[i], r.T.W)
			if r.T.W == 0 {
				rv.Int = int64(vals[i])
			}
		}
		out = append(out, rv)
	}
	return out
}
