package driver

func init() {
	var quick, thorough []*Job
	bt := "sequential timing on the symbolic clock: idle duration d symbolic in [1 s, 20 s], every silence symbolic in [0, 30 s], every timer expiration at an arbitrary instant not before its deadline; the program (argument 2, base 3, least significant digit first: 1 traffic event, 2 timer expiration + callback) fixes the order of events"
	timing := func(list *[]*Job, args ...int64) {
		*list = append(*list, &Job{Pkg: "", Func: "ZZ_C20_Timing", Args: args, Bounds: bt, ManualTimers: true, SolverTimeoutMs: 1500, SolverFallback: true})
	}
	// (kind, pattern, withInactive, panicFirst)
	for _, kind := range []int64{0, 1} {
		for _, p := range []int64{2, 7, 8, 23} {
			timing(&quick, kind, p, (p+kind)%2, (p/2+kind)%2)
		}
		for _, p := range []int64{22, 25, 17, 70, 26} {
			timing(&thorough, kind, p, (p+kind)%2, (p/3)%2)
			timing(&thorough, kind, p, (p+kind+1)%2, 0)
		}
	}
	bc := "concurrent: the timer callback runs as its own goroutine interleaved arbitrarily with the event goroutine (mutex operations are the scheduling points); concrete clock (d = 2 s, silences out of {0,1,2,5} s, an expiration moves the clock to the deadline); at most MaxTimerFires expirations per path"
	conc := func(list *[]*Job, fires int, args ...int64) {
		*list = append(*list, &Job{Pkg: "", Func: "ZZ_C20_Idle", Args: args, Bounds: bc, ConcreteClock: true, MaxTimerFires: fires})
	}
	// (kind, traffic, withInactive, panicFirst)
	conc(&quick, 3, 0, 1, 0, 0)
	conc(&quick, 3, 1, 1, 0, 0)
	conc(&quick, 2, 0, 1, 1, 0)
	conc(&quick, 2, 1, 1, 1, 1)
	conc(&quick, 3, 0, 0, 1, 1)
	conc(&quick, 3, 1, 0, 0, 1)
	conc(&quick, 2, 0, 1, 2, 0) // a handler behind the idle handler fails while handling inactive
	conc(&quick, 2, 1, 0, 2, 0)
	conc(&quick, 2, 0, 0, 3, 0) // a handler behind the idle handler closes the channel while it handles the active event
	conc(&quick, 2, 1, 0, 3, 0)
	conc(&quick, 2, 1, 0, 4, 0) // a write passes the handler after inactive
	conc(&quick, 2, 0, 0, 4, 0) // a read passes the handler after inactive
	conc(&quick, 2, 0, 0, 0, 3) // the event handler closes the channel and then panics
	conc(&quick, 2, 1, 0, 0, 3)
	conc(&quick, 2, 1, 1, 0, 2) // the first write passes the idle handler and is refused further down
	conc(&thorough, 2, 1, 1, 1, 2)
	conc(&thorough, 3, 0, 1, 1, 1)
	conc(&thorough, 3, 1, 1, 1, 0)
	conc(&thorough, 2, 0, 2, 0, 0)
	conc(&thorough, 2, 1, 2, 1, 0)
	conc(&thorough, 4, 0, 1, 0, 1)
	for _, k := range []int64{0, 1} {
		quick = append(quick, &Job{Pkg: "", Func: "ZZ_C20_PanicRouting", Args: []int64{k}, Bounds: "exception handler in front of the idle handler, panicking event handler behind it; up to 2 expirations", ConcreteClock: true, MaxTimerFires: 2})
	}
	Specs["C20"] = &Spec{
		Jobs: jobsBy(quick, thorough), Labels: labelFilter("c20-"),
		MustReach: []string{"c20-idle-event", "c20-active-done", "c20-inactive-done", "c20-panic-routed", "c20-refused-write", "c20-close-then-panic", "c20-panic-routed-from-head"},
		Bounds: map[string]string{
			"quick":    "timing: 4 event programs of up to 3 steps per handler kind on the fully symbolic clock; concurrency: one traffic event, up to 3 timer expirations, inactive event and panicking event handler variants, all interleavings",
			"thorough": "timing: 5 more programs of up to 4 steps; concurrency: two traffic events, 4 expirations",
		},
		Outside:     "real timer drift; more than 2 traffic events concurrent with callbacks; the symbolic clock is combined with sequential callbacks only (the concurrent family uses concrete instants) because bit-vector clock arithmetic under hundreds of interleavings is out of the solvers' reach here (measured: >500 s per job)",
		Assumptions: append([]string{"time.AfterFunc/Reset/Stop modelled by the engine: one callback per arming, at some instant >= arm time + d; time.Now monotone"}, Specs["C01"].Assumptions...),
	}
}
