package frame

import (
	"github.com/go-netty/go-netty"
	"github.com/go-netty/go-netty/internal/vrt"
)

// ZZ_C04_Prepender: the stand-alone length prepender paired with its matching decoder.
// Body length is symbolic up to 2^33 (crosses the capacity of 1-, 2- and 4-byte fields),
// adjustment symbolic in [-4,4]. Either the encoder raises an exception or the frame decodes
// to exactly the body, consuming exactly the frame.
func ZZ_C04_Prepender(w, order, includes, strip int) {
	adj := vrt.IntIn(-4, 4)
	hi := 1 << 33
	if strip == 0 {
		hi = 600 // header delivered with the body: the content query is hard for the solver at full range
	}
	n := vrt.IntIn(0, hi)
	body := vrt.Bytes(n)
	enc := LengthFieldPrepender(zzOrder(order), w, adj, includes != 0)
	ectx := &zzCtx{}
	pv := vrt.Panics(func() { enc.HandleWrite(ectx, body) })
	if pv != nil {
		vrt.Assert(!vrt.IsRuntimeError(pv), "encoder-exception-is-not-a-runtime-fault")
		vrt.Reach("c04-encoder-rejects")
		return
	}
	vrt.Assert(len(ectx.out) == 1, "encoder-forwards-one-message")
	wire, ok := zzFlatten(ectx.out[0], 0)
	vrt.Assert(ok, "encoder-output-type")
	vrt.Assert(len(wire) == w+n, "wire-length")
	// matching decoder: field value = n+adj(+w); frame = value + decAdj + w  =>  decAdj = -adj (-w)
	decAdj := -adj
	if includes != 0 {
		decAdj -= w
	}
	stripN := 0
	if strip != 0 {
		stripN = w
	}
	dec := LengthFieldCodec(zzOrder(order), 1<<40, 0, w, decAdj, stripN)
	src := &zzSrc{data: wire}
	dctx := &zzCtx{}
	dv := vrt.Panics(func() { dec.HandleRead(dctx, src) })
	vrt.Assert(dv == nil, "own-frame-decodes")
	vrt.Assert(len(dctx.in) == 1, "decoder-delivers-one-frame")
	got, dok := zzDrain(dctx.in[0], n+w+1)
	vrt.Assert(dok, "frame-readable")
	vrt.Assert(len(got) == n+w-stripN, "delivered-length")
	if n > 0 {
		i := vrt.IntIn(0, n-1)
		vrt.Assert(got[w-stripN+i] == body[i], "delivered-content")
		vrt.Reach("c04-roundtrip")
	}
	vrt.Assert(src.off == w+n, "consumed-exactly-the-frame")
}

// ZZ_C04_LengthFieldCodec: the codec's own encoder with its own decoder.
func ZZ_C04_LengthFieldCodec(w, order int) {
	n := vrt.IntIn(0, 1<<33)
	max := vrt.IntIn(w, 1<<40)
	vrt.Assume(n+w <= max) // payloads the codec's contract admits
	body := vrt.Bytes(n)
	cdc := LengthFieldCodec(zzOrder(order), max, 0, w, 0, w)
	ectx := &zzCtx{}
	pv := vrt.Panics(func() { cdc.HandleWrite(ectx, body) })
	if pv != nil {
		vrt.Assert(!vrt.IsRuntimeError(pv), "encoder-exception-is-not-a-runtime-fault")
		vrt.Reach("c04-codec-encoder-rejects")
		return
	}
	wire, ok := zzFlatten(ectx.out[0], 0)
	vrt.Assert(ok && len(wire) == w+n, "wire-length")
	src := &zzSrc{data: wire}
	dctx := &zzCtx{}
	dv := vrt.Panics(func() { cdc.HandleRead(dctx, src) })
	vrt.Assert(dv == nil, "own-frame-decodes")
	got, dok := zzDrain(dctx.in[0], n+1)
	vrt.Assert(dok && len(got) == n, "delivered-length")
	if n > 0 {
		i := vrt.IntIn(0, n-1)
		vrt.Assert(got[i] == body[i], "delivered-content")
		vrt.Reach("c04-codec-roundtrip")
	}
	vrt.Assert(src.off == w+n, "consumed-exactly-the-frame")
}

// ZZ_C04_Varint: varint length codec round trip, symbolic length and max.
func ZZ_C04_Varint() {
	n := vrt.IntIn(0, 1<<33)
	max := vrt.IntIn(1, 1<<40)
	body := vrt.Bytes(n)
	cdc := VarintLengthFieldCodec(max)
	ectx := &zzCtx{}
	pv := vrt.Panics(func() { cdc.HandleWrite(ectx, body) })
	if pv != nil {
		vrt.Assert(!vrt.IsRuntimeError(pv), "encoder-exception-is-not-a-runtime-fault")
		vrt.Assert(n > max, "encoder-rejects-only-oversized")
		vrt.Reach("c04-varint-encoder-rejects")
		return
	}
	vrt.Assert(n <= max, "encoder-accepts-only-admitted")
	wire, ok := zzFlatten(ectx.out[0], 0)
	vrt.Assert(ok, "encoder-output-type")
	hdr := len(wire) - n
	vrt.Assert(hdr >= 1 && hdr <= 10, "header-size")
	src := &zzSrc{data: wire}
	dctx := &zzCtx{}
	dv := vrt.Panics(func() { cdc.HandleRead(dctx, src) })
	vrt.Assert(dv == nil, "own-frame-decodes")
	got, dok := zzDrain(dctx.in[0], n+1)
	vrt.Assert(dok && len(got) == n, "delivered-length")
	if n > 0 {
		i := vrt.IntIn(0, n-1)
		vrt.Assert(got[i] == body[i], "delivered-content")
		vrt.Reach("c04-varint-roundtrip")
	}
	vrt.Assert(src.off == len(wire), "consumed-exactly-the-frame")
}

var _ netty.Message
