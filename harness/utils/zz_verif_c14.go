package utils

import (
	"net"
	"bytes"
	"io"
	"strings"

	"github.com/go-netty/go-netty/internal/vrt"
)

// zzSrc: fragmenting reader (see codec/frame harness for the model).
type zzSrc struct {
	data        []byte
	off         int
	frag        int
	splits      int
	eofWithData bool
}

func (s *zzSrc) Read(p []byte) (int, error) {
	rem := len(s.data) - s.off
	if rem == 0 {
		return 0, io.EOF
	}
	if len(p) == 0 {
		return 0, nil
	}
	k := rem
	if len(p) < k {
		k = len(p)
	}
	if s.frag == 2 {
		k = 1
	} else if s.frag == 1 && k > 1 && s.splits > 0 {
		k = vrt.Concrete(k)
		c := zzSplit(k)
		if c < k {
			s.splits--
			k = c
		}
	}
	copy(p, s.data[s.off:s.off+k])
	s.off += k
	if s.off == len(s.data) && s.eofWithData {
		return k, io.EOF
	}
	return k, nil
}

// zzWT: io.WriterTo writing its content in chunks of 2 bytes through one reused buffer.
type zzWT struct{ data []byte }

func (w *zzWT) WriteTo(dst io.Writer) (int64, error) {
	buf := make([]byte, 2)
	var total int64
	for off := 0; off < len(w.data); off += 2 {
		k := copy(buf, w.data[off:])
		n, err := dst.Write(buf[:k])
		total += int64(n)
		if err != nil {
			return total, err
		}
	}
	return total, nil
}

type zzPlainReader struct{ src *zzSrc }

func (r zzPlainReader) Read(p []byte) (int, error) { return r.src.Read(p) }

func zzSame(got, want []byte, label string) {
	vrt.Assert(len(got) == len(want), label+"-length")
	if len(want) > 0 {
		i := vrt.IntIn(0, len(want)-1)
		vrt.Assert(got[i] == want[i], label+"-content")
	}
}

func zzDrainAll(r io.Reader, capacity int) ([]byte, bool) {
	buf := make([]byte, capacity)
	n := 0
	for i := 0; i < 64; i++ {
		if n == len(buf) {
			var one [1]byte
			k, err := r.Read(one[:])
			if k > 0 {
				return buf[:n], false
			}
			if err == io.EOF {
				return buf[:n], true
			}
			if err != nil {
				return buf[:n], false
			}
			continue
		}
		k, err := r.Read(buf[n:])
		n += k
		if err == io.EOF {
			return buf[:n], true
		}
		if err != nil {
			return buf[:n], false
		}
	}
	vrt.Cut("drain-iterations")
	return nil, false
}

// zzCarrier builds a message of the given kind holding content; supported says whether the helpers must accept it.
func zzCarrier(kind int, content []byte) (msg interface{}, supportedBytes, supportedReader bool) {
	n := len(content)
	switch kind {
	case 0:
		return content, true, true
	case 1:
		cut := vrt.Choose(n + 1)
		return [][]byte{content[:cut], content[cut:]}, true, true
	case 2:
		return string(content), true, true
	case 3:
		return bytes.NewBuffer(append([]byte(nil), content...)), true, true
	case 4:
		return bytes.NewReader(content), true, true
	case 5:
		return strings.NewReader(string(content)), true, true
	case 6:
		return &zzWT{data: content}, true, false
	case 7:
		return zzPlainReader{&zzSrc{data: content, frag: 1, splits: 2, eofWithData: vrt.Choose(2) == 1}}, true, true
	case 8:
		return 42, false, false
	case 9:
		return struct{ A int }{1}, false, false
	case 10: // a *bytes.Reader whose first two bytes (a header, say) were already consumed: the message is the unread rest
		r := bytes.NewReader(append([]byte{0xF1, 0xF2}, content...))
		r.ReadByte()
		r.ReadByte()
		return r, true, true
	case 11: // *strings.Reader, likewise
		r := strings.NewReader(string(append([]byte{0xF1, 0xF2}, content...)))
		r.ReadByte()
		r.ReadByte()
		return r, true, true
	case 13: // [][]byte whose pieces are out-of-order views of one array (content is arr[0:1]+arr[2:3]+arr[1:2]+arr[3:])
		if n >= 3 {
			arr := append([]byte{content[0], content[2], content[1]}, content[3:]...)
			return [][]byte{arr[0:1], arr[2:3], arr[1:2], arr[3:]}, true, true
		}
		return [][]byte{content}, true, true
	case 12: // *bytes.Buffer, likewise
		b := bytes.NewBuffer(append([]byte{0xF1, 0xF2}, content...))
		b.Next(2)
		return b, true, true
	}
	return nil, false, false
}

// ZZ_C14_ToBytes: ToBytes returns exactly the content of every supported input and an error otherwise.
func ZZ_C14_ToBytes(kind int) {
	n := vrt.Choose(6)
	content := vrt.Bytes(n)
	snapshot := append([]byte(nil), content...)
	msg, ok, _ := zzCarrier(kind, content)
	vrt.Facet("carrier", kind)
	got, err := ToBytes(msg)
	if !ok {
		vrt.Assert(err != nil, "unsupported-type-is-an-error")
		vrt.Reach("c14-tobytes-unsupported")
		return
	}
	vrt.Assert(err == nil, "supported-type-accepted")
	zzSame(got, snapshot, "tobytes")
	vrt.Reach("c14-tobytes-done")
}

// ZZ_C14_ToReader: ToReader yields a reader over exactly the content.
func ZZ_C14_ToReader(kind int) {
	n := vrt.Choose(6)
	content := vrt.Bytes(n)
	snapshot := append([]byte(nil), content...)
	msg, _, ok := zzCarrier(kind, content)
	vrt.Facet("carrier", kind)
	r, err := ToReader(msg)
	if !ok {
		if kind == 6 { // a WriterTo that is not a Reader is not accepted by ToReader
			vrt.Assert(err != nil, "unsupported-type-is-an-error")
			return
		}
		vrt.Assert(err != nil, "unsupported-type-is-an-error")
		vrt.Reach("c14-toreader-unsupported")
		return
	}
	vrt.Assert(err == nil && r != nil, "supported-type-accepted")
	got, dok := zzDrainAll(r, n+1)
	vrt.Assert(dok, "reader-readable")
	zzSame(got, snapshot, "toreader")
	vrt.Reach("c14-toreader-done")
}

// ZZ_C14_CountOf: byte counting over slices of symbolic (large) lengths.
func ZZ_C14_CountOf() {
	a := vrt.IntIn(0, 1<<40)
	b := vrt.IntIn(0, 1<<40)
	c := vrt.IntIn(0, 1<<40)
	x, y, z := vrt.Bytes(a), vrt.Bytes(b), vrt.Bytes(c)
	vrt.Assert(CountOf([][]byte{x, y, z}) == int64(a+b+c), "countof-sum")
	vrt.Assert(CountOf(nil) == 0, "countof-empty")
	vrt.Assert(CountOf([][]byte{x}) == int64(a), "countof-single")
	vrt.Reach("c14-countof-done")
}

// ZZ_C14_ByteReader: byte-wise reading over a fragmenting reader, incl. the last byte arriving with io.EOF.
func ZZ_C14_ByteReader(kind int) {
	n := vrt.Choose(4)
	content := vrt.Bytes(n)
	var r io.Reader
	if kind == 0 {
		r = zzPlainReader{&zzSrc{data: content, frag: 1, splits: 2, eofWithData: vrt.Choose(2) == 1}}
	} else {
		r = bytes.NewReader(content)
	}
	br := NewByteReader(r)
	for i := 0; i < n; i++ {
		b, err := br.ReadByte()
		vrt.Assert(err == nil, "readbyte-no-error-before-end")
		vrt.Assert(b == content[i], "readbyte-value")
	}
	_, err := br.ReadByte()
	vrt.Assert(err == io.EOF, "readbyte-eof-at-end")
	vrt.Reach("c14-bytereader-done")
}

// zzViewsWT writes views of ONE array, out of order ([0:2], [4:6], [2:4]): every view but the last has spare
// capacity that covers bytes still to be written.
type zzViewsWT struct{ arr []byte }

func (w *zzViewsWT) WriteTo(dst io.Writer) (int64, error) {
	var total int64
	for _, v := range [][]byte{w.arr[0:2], w.arr[4:6], w.arr[2:4]} {
		n, err := dst.Write(v)
		total += int64(n)
		if err != nil {
			return total, err
		}
	}
	return total, nil
}

// ZZ_C14_StealBytes: stealing from the standard single-chunk WriterTo implementations (0-2) and from multi-write
// sources whose fragments are views of one array (3: a WriterTo, 4: net.Buffers).
func ZZ_C14_StealBytes(kind int) {
	n := vrt.Choose(6)
	if kind >= 3 {
		n = 6
	}
	content := vrt.Bytes(n)
	snapshot := append([]byte(nil), content...)
	if kind >= 3 {
		snapshot = append(append(append([]byte(nil), content[0:2]...), content[4:6]...), content[2:4]...)
	}
	var w io.WriterTo
	switch kind {
	case 3:
		w = &zzViewsWT{arr: content}
	case 4:
		nb := net.Buffers{content[0:2], content[4:6], content[2:4]}
		w = &nb
	case 0:
		w = bytes.NewReader(content)
	case 1:
		w = strings.NewReader(string(content))
	case 2:
		w = bytes.NewBuffer(append([]byte(nil), content...))
	}
	got, err := StealBytes(w)
	vrt.Assert(err == nil, "steal-no-error")
	zzSame(got, snapshot, "steal")
	vrt.Reach("c14-steal-done")
}

// zzSplit picks the size of a short read out of k available bytes: every size for small k,
// the sizes 1, k/2, k-1 (or no split) for larger k.
func zzSplit(k int) int {
	if k <= 8 {
		return vrt.Choose(k) + 1
	}
	switch vrt.Choose(4) {
	case 0:
		return 1
	case 1:
		return k / 2
	case 2:
		return k - 1
	}
	return k
}
