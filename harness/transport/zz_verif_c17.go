package transport

import (
	"io"
	"net"
	"time"

	"github.com/go-netty/go-netty/internal/vrt"
)

type zzAddr struct{}

func (zzAddr) Network() string { return "zz" }
func (zzAddr) String() string  { return "zz:0" }

// zzConn is an in-memory connection: received collects what the peer gets, peer is what the peer sent.
type zzConn struct {
	received []byte
	peer     []byte
	off      int
	splits   int
	writes   int
	closed   bool
}

func (c *zzConn) Write(p []byte) (int, error) {
	c.writes++
	c.received = append(c.received, p...)
	return len(p), nil
}

func (c *zzConn) Read(p []byte) (int, error) {
	rem := len(c.peer) - c.off
	if rem == 0 {
		return 0, io.EOF
	}
	if len(p) == 0 {
		return 0, nil
	}
	k := rem
	if len(p) < k {
		k = len(p)
	}
	if k > 1 && c.splits > 0 {
		s := zzSplit(k)
		if s < k {
			c.splits--
			k = s
		}
	}
	copy(p, c.peer[c.off:c.off+k])
	c.off += k
	return k, nil
}

func zzSplit(k int) int {
	if k <= 8 {
		return vrt.Choose(k) + 1
	}
	switch vrt.Choose(4) {
	case 0:
		return 1
	case 1:
		return k / 2
	case 2:
		return k - 1
	}
	return k
}

func (c *zzConn) Close() error                       { c.closed = true; return nil }
func (c *zzConn) LocalAddr() net.Addr                { return zzAddr{} }
func (c *zzConn) RemoteAddr() net.Addr               { return zzAddr{} }
func (c *zzConn) SetDeadline(time.Time) error        { return nil }
func (c *zzConn) SetReadDeadline(time.Time) error    { return nil }
func (c *zzConn) SetWriteDeadline(time.Time) error   { return nil }

func zzSame(got, want []byte, label string) {
	vrt.Assert(len(got) == len(want), label+"-length")
	if len(want) > 0 {
		i := vrt.IntIn(0, len(want)-1)
		vrt.Assert(got[i] == want[i], label+"-content")
	}
}

func zzSizes(ws, mode int) []int {
	if ws <= 0 {
		ws = 4
	}
	if mode == 1 {
		return []int{1, ws, 2*ws + 1}
	}
	return []int{0, 1, ws - 1, ws, ws + 1, 2*ws + 1}
}

// ZZ_C17_Write: every sequence of up to nops Write/Writev/Flush delivers exactly the written bytes, in call
// order, once Flush has returned (immediately for the unbuffered variants).
func ZZ_C17_Write(rsize, wsize, nops, mode int) {
	conn := &zzConn{}
	tr := NewTransport(conn, rsize, wsize)
	sizes := zzSizes(wsize, mode)
	var want []byte
	for op := 0; op < nops; op++ {
		switch vrt.Choose(3) {
		case 0:
			p := vrt.Bytes(sizes[vrt.Choose(len(sizes))])
			n, err := tr.Write(p)
			vrt.Assert(err == nil && n == len(p), "write-accepts-all")
			want = append(want, p...)
		case 1:
			a := vrt.Bytes(sizes[vrt.Choose(len(sizes))])
			b := vrt.Bytes(sizes[vrt.Choose(len(sizes)/2)])
			bufs := Buffers{a, b}
			n, err := tr.Writev(bufs)
			vrt.Assert(err == nil && n == int64(len(a)+len(b)), "writev-accepts-all")
			want = append(want, a...)
			want = append(want, b...)
		case 2:
			vrt.Assert(tr.Flush() == nil, "flush-succeeds")
			zzSame(conn.received, want, "after-flush")
			vrt.Reach("c17-flush-checked")
		}
		if wsize <= 0 {
			zzSame(conn.received, want, "unbuffered-immediate")
		}
		// never ahead of, and always a prefix of, what was written
		vrt.Assert(len(conn.received) <= len(want), "no-phantom-bytes")
	}
	vrt.Assert(tr.Flush() == nil, "flush-succeeds")
	zzSame(conn.received, want, "final")
	vrt.Reach("c17-write-done")
}

// ZZ_C17_Read: Read returns exactly the peer's bytes in order under fragmentation, then io.EOF.
func ZZ_C17_Read(rsize, wsize, big int) {
	n := vrt.Choose(6)
	if big != 0 {
		n = 37
	}
	peer := vrt.Bytes(n)
	conn := &zzConn{peer: peer, splits: 2}
	tr := NewTransport(conn, rsize, wsize)
	var got []byte
	psize := []int{1, 3, 20}[vrt.Choose(3)]
	for i := 0; i < 48 && len(got) < n; i++ {
		if big == 0 {
			psize = []int{2, 20}[vrt.Choose(2)] // mix short reads (leave data buffered) with reads larger than the buffer
		} else if i > 0 {
			psize = 20
		}
		p := make([]byte, psize)
		k, err := tr.Read(p)
		vrt.Assert(k >= 0 && k <= len(p), "read-count-in-range")
		vrt.Assert(err == nil || k == 0, "no-error-with-data")
		vrt.Assert(err == nil, "no-error-before-end")
		vrt.Assert(k > 0, "read-makes-progress")
		got = append(got, p[:k]...)
	}
	zzSame(got, peer, "read")
	p := make([]byte, 4)
	k, err := tr.Read(p)
	vrt.Assert(k == 0 && err == io.EOF, "eof-at-end")
	vrt.Reach("c17-read-done")
}
