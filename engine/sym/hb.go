package sym

import (
	"fmt"
	"go/token"
	"go/types"
	"sort"
)

// Happens-before (vector clock) race monitor, active when Cfg.Race is set.
//
// Every thread carries a vector clock; every heap cell written or read by repository / standard-library code
// (not by harness code, and not cells of harness-allocated objects) carries its last write epoch and the read
// epochs since. Edges follow the Go memory model: go statement -> thread start; atomic store/RMW -> atomic
// load/RMW of the same cell; channel send -> the receive of that item, receive -> later sends (over-approximated:
// a send acquires all earlier receives), close -> receive-of-closed; Unlock -> later Lock (and R-variants);
// timer arm -> callback start; thread end -> Quiesce. The vrt models (context, sync.Map, sync.Once) run inside
// vrt.Atomic sections, which act as one global lock (an over-approximation of the ordering the real primitives
// provide: it can hide a race between accesses adjacent to two unrelated primitives, never invent one).

type shadowKey struct {
	Obj  ObjID
	Path string
}

type epoch struct {
	T   int32
	C   int32
	Pos token.Pos
	Fn  string
}

type shadowCell struct {
	W  epoch
	Rd []epoch
}

func vcJoin(a, b []int32) []int32 {
	n := len(a)
	if len(b) > n {
		n = len(b)
	}
	out := make([]int32, n)
	copy(out, a)
	for i, v := range b {
		if v > out[i] {
			out[i] = v
		}
	}
	return out
}

func vcGet(vc []int32, t int32) int32 {
	if int(t) < len(vc) {
		return vc[t]
	}
	return 0
}

func (e *Engine) vcOf(th *Thread) []int32 {
	if len(th.VC) <= th.ID {
		n := make([]int32, th.ID+1)
		copy(n, th.VC)
		th.VC = n
	}
	if th.VC[th.ID] == 0 {
		th.VC[th.ID] = 1
	}
	return th.VC
}

func (e *Engine) vcTick(th *Thread) {
	vc := append([]int32(nil), e.vcOf(th)...)
	vc[th.ID]++
	th.VC = vc
}

func (e *Engine) hbFork(st *State, parent, child *Thread) []int32 {
	var vc []int32
	if parent != nil {
		vc = append([]int32(nil), e.vcOf(parent)...)
		e.vcTick(parent)
	}
	if len(vc) <= child.ID {
		n := make([]int32, child.ID+1)
		copy(n, vc)
		vc = n
	}
	vc[child.ID] = 1
	return vc
}

func (st *State) syncGet(k shadowKey) []int32 { return st.SyncVC[k] }
func (st *State) syncSet(k shadowKey, vc []int32) {
	if st.SyncVC == nil {
		st.SyncVC = map[shadowKey][]int32{}
	}
	st.SyncVC[k] = vc
}

func (e *Engine) acquire(st *State, th *Thread, k shadowKey) {
	if l := st.syncGet(k); l != nil {
		th.VC = vcJoin(e.vcOf(th), l)
	}
}

func (e *Engine) release(st *State, th *Thread, k shadowKey, join bool) {
	vc := e.vcOf(th)
	if join {
		st.syncSet(k, vcJoin(st.syncGet(k), vc))
	} else {
		st.syncSet(k, append([]int32(nil), vc...))
	}
	e.vcTick(th)
}

func (e *Engine) hbAtomic(st *State, th *Thread, p Ptr, write bool) {
	k := shadowKey{p.Obj, p.Path}
	e.acquire(st, th, k)
	if write {
		e.release(st, th, k, true)
	}
}

func (e *Engine) hbAcquire(st *State, th *Thread, p Ptr) { e.acquire(st, th, shadowKey{p.Obj, p.Path}) }
func (e *Engine) hbRelease(st *State, th *Thread, p Ptr) {
	e.release(st, th, shadowKey{p.Obj, p.Path}, false)
}
func (e *Engine) hbReleaseShared(st *State, th *Thread, p Ptr) {
	e.release(st, th, shadowKey{p.Obj, p.Path}, true)
}

var atomicSectionKey = shadowKey{Obj: -1}

func (e *Engine) hbAtomicBegin(st *State, th *Thread) { e.acquire(st, th, atomicSectionKey) }
func (e *Engine) hbAtomicEnd(st *State, th *Thread)   { e.release(st, th, atomicSectionKey, true) }

func (e *Engine) hbChanSend(st *State, th *Thread, o *Object, id ObjID) {
	// a send happens after the receives that made room (over-approximated by all earlier receives)
	e.acquire(st, th, shadowKey{id, "recv"})
	o.ItemVC = append(append([][]int32(nil), o.ItemVC...), append([]int32(nil), e.vcOf(th)...))
	e.vcTick(th)
}

func (e *Engine) hbChanRecv(st *State, th *Thread, o *Object, id ObjID, closed bool) {
	if closed {
		e.acquire(st, th, shadowKey{id, "close"})
		return
	}
	if len(o.ItemVC) > 0 {
		th.VC = vcJoin(e.vcOf(th), o.ItemVC[0])
		o.ItemVC = append([][]int32(nil), o.ItemVC[1:]...)
	}
	e.release(st, th, shadowKey{id, "recv"}, true)
}

func (e *Engine) hbChanClose(st *State, th *Thread, o *Object, id ObjID) {
	e.release(st, th, shadowKey{id, "close"}, false)
}

func (e *Engine) hbChanPeek(st *State, th *Thread, o *Object, id ObjID) {}

func (e *Engine) hbRendezvous(st *State, a, b *Thread) {
	j := vcJoin(e.vcOf(a), e.vcOf(b))
	a.VC = append([]int32(nil), j...)
	b.VC = append([]int32(nil), j...)
	e.vcTick(a)
	e.vcTick(b)
}

func (e *Engine) hbJoinAll(st *State, th *Thread) {
	vc := e.vcOf(th)
	for _, o := range st.Threads {
		if o != th && o.VC != nil {
			vc = vcJoin(vc, o.VC)
		}
	}
	if st.DoneVC != nil {
		vc = vcJoin(vc, st.DoneVC)
	}
	th.VC = vc
}

func (e *Engine) hbTimerArm(st *State, th *Thread, id ObjID) {
	e.release(st, th, shadowKey{id, "timer"}, true)
}

func (e *Engine) hbTimerFire(st *State, th *Thread, id ObjID) {
	e.acquire(st, th, shadowKey{id, "timer"})
}

// leafPaths enumerates the scalar leaf cells below path p of value v.
func leafPaths(v Value, p string, out []string) []string {
	switch x := v.(type) {
	case *StructV:
		for i, f := range x.F {
			out = leafPaths(f, pathAppend(p, i), out)
		}
		return out
	case *ArrayV:
		if len(x.E) > 64 {
			return append(out, p) // large arrays: one cell
		}
		for i, f := range x.E {
			out = leafPaths(f, pathAppend(p, i), out)
		}
		return out
	}
	return append(out, p)
}

// hbAccess checks one plain memory access for a data race.
func (e *Engine) hbAccess(st *State, th *Thread, o *Object, p Ptr, write bool, pos token.Pos) {
	if o.Harness || e.inInit {
		return
	}
	fr := th.top()
	if fr == nil || fr.Info.harness {
		return
	}
	if th.NoPreempt > 0 {
		return // inside a vrt model
	}
	var cells []string
	switch o.Kind {
	case OCells:
		cells = leafPaths(loadPath(o.V, p.Path), p.Path, nil)
	default:
		cells = []string{""} // byte arrays, maps: one cell per object
	}
	if pos == token.NoPos && fr.Mode == 0 && fr.IP < len(fr.Block.Instrs) {
		pos = fr.Block.Instrs[fr.IP].Pos()
	}
	vc := e.vcOf(th)
	me := epoch{T: int32(th.ID), C: vc[th.ID], Pos: pos, Fn: fr.Fn.String()}
	if st.Shadow == nil {
		st.Shadow = map[shadowKey]*shadowCell{}
	}
	for _, cp := range cells {
		k := shadowKey{p.Obj, cp}
		old := st.Shadow[k]
		var nc shadowCell
		if old != nil {
			nc = shadowCell{W: old.W, Rd: old.Rd}
			if old.W.C > 0 && old.W.T != me.T && old.W.C > vcGet(vc, old.W.T) {
				e.reportRace(st, th, o, cp, old.W, me, true, write)
			}
			if write {
				for _, r := range old.Rd {
					if r.T != me.T && r.C > vcGet(vc, r.T) {
						e.reportRace(st, th, o, cp, r, me, false, true)
					}
				}
			}
		}
		if write {
			nc.W = me
			nc.Rd = nil
		} else {
			rd := make([]epoch, 0, len(nc.Rd)+1)
			for _, r := range nc.Rd {
				if r.T != me.T {
					rd = append(rd, r)
				}
			}
			nc.Rd = append(rd, me)
		}
		st.Shadow[k] = &nc
	}
}

func (e *Engine) cellName(o *Object, path string) string {
	t := o.Typ
	name := "object"
	if t != nil {
		name = types.TypeString(t, nil)
	}
	for _, i := range pathDecode(path) {
		if t == nil {
			break
		}
		switch u := t.Underlying().(type) {
		case *types.Struct:
			if i < u.NumFields() {
				name += "." + u.Field(i).Name()
				t = u.Field(i).Type()
				continue
			}
		case *types.Array:
			name += "[i]"
			t = u.Elem()
			continue
		}
		t = nil
	}
	if o.Kind == OMap {
		name = "map allocated at " + o.Site
	}
	if o.Kind == OBytes {
		name = "byte buffer allocated at " + o.Site
	}
	return name
}

func (e *Engine) reportRace(st *State, th *Thread, o *Object, path string, prev, cur epoch, prevWrite, curWrite bool) {
	kind := func(w bool) string {
		if w {
			return "write"
		}
		return "read"
	}
	cell := e.cellName(o, path)
	label := "c12-race " + cell
	msg := fmt.Sprintf("data race on %s: %s at %s (%s) is not ordered with the earlier %s at %s (%s)",
		cell, kind(curWrite), e.posStr(cur.Pos), cur.Fn, kind(prevWrite), e.posStr(prev.Pos), prev.Fn)
	if e.raceSeen == nil {
		e.raceSeen = map[string]bool{}
	}
	if e.raceSeen[label] {
		return
	}
	e.raceSeen[label] = true
	e.reportViolation(st, label, msg, nil)
}

// shadow serialises the race-monitor state of object id (part of the state identity in race mode).
func (c *canonicaliser) shadow(id ObjID) {
	st := c.st
	var keys []string
	for k := range st.Shadow {
		if k.Obj == id {
			keys = append(keys, k.Path)
		}
	}
	sort.Strings(keys)
	for _, p := range keys {
		sc := st.Shadow[shadowKey{id, p}]
		c.str(p)
		c.i32(sc.W.T)
		c.i32(sc.W.C)
		c.i32(int32(len(sc.Rd)))
		for _, r := range sc.Rd {
			c.i32(r.T)
			c.i32(r.C)
		}
	}
	var sk []string
	for k := range st.SyncVC {
		if k.Obj == id {
			sk = append(sk, k.Path)
		}
	}
	sort.Strings(sk)
	for _, p := range sk {
		c.str(p)
		for _, v := range st.SyncVC[shadowKey{id, p}] {
			c.i32(v)
		}
	}
	if o := st.Heap[id]; o != nil && o.Kind == OChan {
		for _, vc := range o.ItemVC {
			for _, v := range vc {
				c.i32(v)
			}
		}
	}
}
