package driver

func init() {
	var quick, thorough []*Job
	b := "queue sizes 1..3; non-blocking mode with a sender that never runs (exact: k-th call fails iff k > Q) and with a live sender (no failure while writes <= Q); blocking mode behind a stalled sender with four scenarios (space appears, context already cancelled, context cancelled while waiting, Close while waiting); ALL interleavings"
	for q := int64(1); q <= 3; q++ {
		l := &thorough
		if q <= 2 {
			l = &quick
		}
		*l = append(*l, &Job{Pkg: "", Func: "ZZ_C18_NonBlockingExact", Args: []int64{q, q, 0}, Bounds: b})
		for e := int64(0); e < 8; e++ { // every entry point is the one that meets the full queue, with a deadline / cancellable context
			*l = append(*l, &Job{Pkg: "", Func: "ZZ_C18_NonBlockingExact", Args: []int64{q, e, 1 + e%2}, Bounds: b + "; the caller's context has a far deadline or is cancellable (never cancelled)"})
		}
		*l = append(*l, &Job{Pkg: "", Func: "ZZ_C18_NonBlockingLive", Args: []int64{q, 2, 1*8 + 0}, Bounds: b})
		thorough = append(thorough, &Job{Pkg: "", Func: "ZZ_C18_NonBlockingLive", Args: []int64{q, 3, 2*64 + 1*8 + 0}, Bounds: b})
		*l = append(*l, &Job{Pkg: "", Func: "ZZ_C18_Blocking", Args: []int64{q, 4, q % 2}, Bounds: b + "; scenario 4: Close is pending behind the stalled sender when the waiting caller's context ends"})
		for sc := int64(0); sc < 4; sc++ {
			*l = append(*l, &Job{Pkg: "", Func: "ZZ_C18_Blocking", Args: []int64{q, sc, (q + sc) % 5}, Bounds: b})
			thorough = append(thorough, &Job{Pkg: "", Func: "ZZ_C18_Blocking", Args: []int64{q, sc, (q + sc + 1) % 5}, Bounds: b})
		}
	}
	for _, q := range []int64{1, 2} {
		quick = append(quick, &Job{Pkg: "", Func: "ZZ_C18_NonBlockingRace", Args: []int64{q, 1*8 + 0}, Bounds: "two writers race for the last free slot behind a sender that never runs"})
	}
	thorough = append(thorough, &Job{Pkg: "", Func: "ZZ_C18_NonBlockingRace", Args: []int64{3, 6*8 + 2}, Bounds: "two writers race for the last free slot"})
	// the C01 harness also asserts that on an open channel only the queue-full error is ever returned
	q0, _ := writerJobs(0)
	for _, j := range q0 {
		if j.Func == "ZZ_C01_Writers" && j.Args[1] == 0 && j.Args[0] > 0 {
			quick = append(quick, j)
		}
	}
	Specs["C18"] = &Spec{
		Jobs: jobsBy(quick, thorough), Labels: labelFilter("c18-"),
		MustReach: []string{"c18-nonblocking-exact-done", "c18-nonblocking-live-done", "c18-blocking-done", "c18-waiter-parked", "c18-waiter-failed", "c18-waiter-succeeded", "c18-nonblocking-race-done"},
		Bounds: map[string]string{
			"quick":    "queue sizes 1-2, 2 concurrent writers in the live non-blocking case, one waiting writer in the blocking scenarios",
			"thorough": "queue size 3, 3 concurrent writers, a second entry point per scenario",
		},
		Outside:     "more than one simultaneously waiting writer; deadlines (contexts are cancelled, not timed out)",
		Assumptions: Specs["C01"].Assumptions,
	}
}
