package sym

import (
	"os"
	"bufio"
	"fmt"
	"io"
	"os/exec"
	"strconv"
	"strings"
	"time"
)

// Solver drives one long-lived SMT solver process (z3 -in style) with push/pop.
type Solver struct {
	tb      *TB
	cmd     *exec.Cmd
	in      io.WriteCloser
	out     *bufio.Reader
	emitted []bool          // term id -> defined in solver
	funs    map[string]bool // declared memory symbols
	cache   map[[2]int32]Result
	marker  int
	Log     io.Writer

	Kind      string
	Queries   int
	Sat       int
	Unsat     int
	Unknown   int
	CacheHits int
	Time      time.Duration
	Err       error // sticky: any (error ...) line or protocol failure
	buf       strings.Builder
	TimeoutMs int
	pendingPops int
	Fallback bool
	CrossEvery int
	CrossChecked int
	CrossDisagree int
	FallbackQueries int
	lastConj []*Term
	lastViaFallback bool
	ResetAfter  int
	Resets      int
	guards      map[int32]bool
	depth       int
	scoped      [][]int32  // term ids defined at each push level
	scopedFuns  [][]string
}

type Result int

const (
	ResUnsat Result = iota
	ResSat
	ResUnknown
)

func (r Result) String() string { return [...]string{"unsat", "sat", "unknown"}[r] }

// NewSolver starts a solver. kind: "z3", "z3-new", "cvc5".
func NewSolver(tb *TB, kind string, timeoutMs int) (*Solver, error) {
	var cmd *exec.Cmd
	switch kind {
	case "z3":
		cmd = exec.Command("z3", "-in", "-smt2")
	case "z3-new":
		cmd = exec.Command("z3-new", "-in", "-smt2")
	case "cvc5":
		cmd = exec.Command("cvc5", "--incremental", "--produce-models", "--lang=smt2", fmt.Sprintf("--tlimit-per=%d", timeoutMs))
	case "cvc5-int":
		cmd = exec.Command("cvc5", "--incremental", "--produce-models", "--lang=smt2", "--solve-bv-as-int=sum", fmt.Sprintf("--tlimit-per=%d", timeoutMs))
	default:
		return nil, fmt.Errorf("unknown solver %q", kind)
	}
	in, err := cmd.StdinPipe()
	if err != nil {
		return nil, err
	}
	outp, err := cmd.StdoutPipe()
	if err != nil {
		return nil, err
	}
	cmd.Stderr = cmd.Stdout
	if err := cmd.Start(); err != nil {
		return nil, err
	}
	s := &Solver{tb: tb, cmd: cmd, in: in, out: bufio.NewReaderSize(outp, 1<<16), funs: map[string]bool{},
		cache: map[[2]int32]Result{}, Kind: kind, TimeoutMs: timeoutMs, guards: map[int32]bool{}, ResetAfter: 100}
	if lf := os.Getenv("GOSYM_SMTLOG"); lf != "" {
		if f, err := os.Create(lf); err == nil {
			s.Log = f
		}
	}
	if strings.HasPrefix(kind, "cvc5") {
		s.send("(set-logic ALL)\n")
	} else {
		s.send(fmt.Sprintf("(set-option :timeout %d)\n", timeoutMs))
		s.send("(set-option :model.completion true)\n")
	}
	if _, err := s.sync(); err != nil {
		return nil, err
	}
	return s, nil
}

func (s *Solver) Close() {
	if s.cmd != nil {
		s.in.Close()
		done := make(chan struct{})
		go func() { s.cmd.Wait(); close(done) }()
		select {
		case <-done:
		case <-time.After(2 * time.Second):
			s.cmd.Process.Kill()
		}
		s.cmd = nil
	}
}

func (s *Solver) send(str string) {
	s.buf.WriteString(str)
}

// sync flushes buffered commands, appends an echo marker, and returns the output lines before the marker.
func (s *Solver) sync() ([]string, error) {
	s.marker++
	mk := fmt.Sprintf("@@%d", s.marker)
	s.buf.WriteString("(echo \"" + mk + "\")\n")
	data := s.buf.String()
	s.buf.Reset()
	if s.Log != nil {
		io.WriteString(s.Log, data)
	}
	if _, err := io.WriteString(s.in, data); err != nil {
		s.Err = fmt.Errorf("solver write: %w", err)
		return nil, s.Err
	}
	var lines []string
	for {
		line, err := s.out.ReadString('\n')
		if err != nil {
			s.Err = fmt.Errorf("solver read: %w (got %q)", err, lines)
			return lines, s.Err
		}
		line = strings.TrimRight(line, "\r\n")
		if line == mk || line == "\""+mk+"\"" {
			break
		}
		if strings.HasPrefix(line, "(error") {
			s.Err = fmt.Errorf("solver error: %s", line)
		}
		if line != "" {
			lines = append(lines, line)
			if s.Log != nil {
				io.WriteString(s.Log, "; <- "+line+"\n")
			}
		}
	}
	return lines, s.Err
}

func sortSMT(w uint8) string {
	if w == 0 {
		return "Bool"
	}
	return "(_ BitVec " + strconv.Itoa(int(w)) + ")"
}

func constSMT(t *Term) string {
	if t.W == 0 {
		if t.K == 1 {
			return "true"
		}
		return "false"
	}
	if t.W%4 == 0 {
		return fmt.Sprintf("#x%0*x", int(t.W/4), t.K)
	}
	return fmt.Sprintf("#b%0*b", int(t.W), t.K)
}

func (s *Solver) ref(t *Term) string {
	switch t.Op {
	case OpConst:
		return constSMT(t)
	case OpVar:
		return "v_" + t.Name
	}
	return "t" + strconv.Itoa(int(t.ID))
}

// define makes sure t (and everything below) is defined in the solver at level 0.
func (s *Solver) define(root *Term) {
	if int(root.ID) < len(s.emitted) && s.emitted[root.ID] {
		return
	}
	// iterative post-order
	type fr struct {
		t *Term
		i int
	}
	stack := []fr{{root, 0}}
	for len(stack) > 0 {
		top := &stack[len(stack)-1]
		t := top.t
		for int(t.ID) >= len(s.emitted) {
			s.emitted = append(s.emitted, false)
		}
		if s.emitted[t.ID] {
			stack = stack[:len(stack)-1]
			continue
		}
		if top.i < len(t.Args) {
			a := t.Args[top.i]
			top.i++
			if int(a.ID) >= len(s.emitted) || !s.emitted[a.ID] {
				stack = append(stack, fr{a, 0})
			}
			continue
		}
		s.emitOne(t)
		s.emitted[t.ID] = true
		stack = stack[:len(stack)-1]
	}
}

func (s *Solver) push() {
	s.send("(push 1)\n")
	s.depth++
	s.scoped = append(s.scoped, nil)
	s.scopedFuns = append(s.scopedFuns, nil)
}

func (s *Solver) pop() {
	s.send("(pop 1)\n")
	if s.depth == 0 {
		return
	}
	s.depth--
	for _, id := range s.scoped[s.depth] {
		s.emitted[id] = false
	}
	for _, f := range s.scopedFuns[s.depth] {
		delete(s.funs, f)
	}
	s.scoped = s.scoped[:s.depth]
	s.scopedFuns = s.scopedFuns[:s.depth]
}

func (s *Solver) emitOne(t *Term) {
	if s.depth > 0 && t.Op != OpConst {
		s.scoped[s.depth-1] = append(s.scoped[s.depth-1], t.ID)
	}
	switch t.Op {
	case OpConst:
		return
	case OpVar:
		s.send("(declare-const v_" + t.Name + " " + sortSMT(t.W) + ")\n")
		return
	}
	var body string
	switch t.Op {
	case OpRead:
		if !s.funs[t.Name] {
			s.funs[t.Name] = true
			if s.depth > 0 {
				s.scopedFuns[s.depth-1] = append(s.scopedFuns[s.depth-1], t.Name)
			}
			s.send("(declare-fun m_" + t.Name + " ((_ BitVec 64)) (_ BitVec 8))\n")
		}
		body = "(m_" + t.Name + " " + s.ref(t.Args[0]) + ")"
	case OpExtract:
		body = fmt.Sprintf("((_ extract %d %d) %s)", t.K>>8, t.K&0xff, s.ref(t.Args[0]))
	case OpZExt:
		body = fmt.Sprintf("((_ zero_extend %d) %s)", t.W-t.Args[0].W, s.ref(t.Args[0]))
	case OpSExt:
		body = fmt.Sprintf("((_ sign_extend %d) %s)", t.W-t.Args[0].W, s.ref(t.Args[0]))
	default:
		var sb strings.Builder
		sb.WriteString("(")
		sb.WriteString(opSMT[t.Op])
		for _, a := range t.Args {
			sb.WriteString(" ")
			sb.WriteString(s.ref(a))
		}
		sb.WriteString(")")
		body = sb.String()
	}
	s.send("(define-fun t" + strconv.Itoa(int(t.ID)) + " () " + sortSMT(t.W) + " " + body + ")\n")
}

// Check decides satisfiability of (a ∧ b). Either may be nil.
func (s *Solver) Check(a, b *Term) Result {
	r, _ := s.check(a, b, false)
	return r
}

// flatten appends the conjuncts of t (a tree of OpAnd) to out.
func flattenAnd(t *Term, out []*Term, seen map[int32]bool) []*Term {
	stack := []*Term{t}
	for len(stack) > 0 {
		x := stack[len(stack)-1]
		stack = stack[:len(stack)-1]
		if x.Op == OpAnd {
			stack = append(stack, x.Args[1], x.Args[0])
			continue
		}
		if x.IsTrue() || seen[x.ID] {
			continue
		}
		seen[x.ID] = true
		out = append(out, x)
	}
	return out
}

// guard returns the name of the Boolean guard literal for conjunct c, asserting (=> g c) once.
func (s *Solver) guard(c *Term) string {
	name := "g" + strconv.Itoa(int(c.ID))
	if !s.guards[c.ID] {
		s.define(c)
		s.guards[c.ID] = true
		s.send("(declare-const " + name + " Bool)\n(assert (=> " + name + " " + s.ref(c) + "))\n")
	}
	return name
}

// check decides (a ∧ b) with check-sat-assuming over per-conjunct guard literals: every conjunct is
// asserted once at level 0 as (=> guard conjunct), so the solver keeps its internalised form and
// learned clauses across the thousands of queries of a job (no push/pop).
func (s *Solver) check(a, b *Term, keep bool) (Result, error) {
	tb := s.tb
	if a == nil {
		a = tb.True
	}
	if b == nil {
		b = tb.True
	}
	if a.IsFalse() || b.IsFalse() {
		return ResUnsat, nil
	}
	key := [2]int32{a.ID, b.ID}
	if !keep {
		if a.IsTrue() && b.IsTrue() {
			return ResSat, nil
		}
		if r, ok := s.cache[key]; ok {
			s.CacheHits++
			return r, nil
		}
	}
	if s.Err != nil {
		return ResUnknown, s.Err
	}
	start := time.Now()
	if len(s.guards) > s.ResetAfter {
		// the context has accumulated many inactive guarded conjuncts: start afresh (definitions are re-emitted on demand)
		s.send("(reset)\n")
		s.emitted = s.emitted[:0]
		s.funs = map[string]bool{}
		s.guards = map[int32]bool{}
		if strings.HasPrefix(s.Kind, "cvc5") {
			s.send("(set-logic ALL)\n")
		} else {
			s.send(fmt.Sprintf("(set-option :timeout %d)\n(set-option :model.completion true)\n", s.TimeoutMs))
		}
		s.Resets++
	}
	seen := map[int32]bool{}
	conj := flattenAnd(a, nil, seen)
	conj = flattenAnd(b, conj, seen)
	var sb strings.Builder
	for _, c := range conj {
		if c.IsFalse() {
			return ResUnsat, nil
		}
		sb.WriteString(" ")
		sb.WriteString(s.guard(c))
	}
	s.send("(check-sat-assuming (" + sb.String() + " ))\n")
	lines, err := s.sync()
	s.Queries++
	res := ResUnknown
	if err == nil {
		for _, l := range lines {
			switch l {
			case "sat":
				res = ResSat
			case "unsat":
				res = ResUnsat
			case "unknown", "timeout":
				res = ResUnknown
			}
		}
	}
	s.lastConj = conj
	s.lastViaFallback = false
	if s.CrossEvery > 0 && err == nil && res != ResUnknown && s.Queries%s.CrossEvery == 0 {
		// thorough tier: re-decide a sample of the queries on a second solver (cvc5, plain bit-vector mode)
		r2, _, xerr := s.oneShotWith(conj, nil, false)
		if xerr == nil && r2 != ResUnknown {
			s.CrossChecked++
			if r2 != res {
				s.CrossDisagree++
				s.Err = fmt.Errorf("solver disagreement on query %d: z3 %v, cvc5 %v", s.Queries, res, r2)
			}
		}
	}
	if res == ResUnknown && err == nil && s.Fallback {
		// bit-blasting gave up (typically chains of 64-bit additions/comparisons on the symbolic clock):
		// re-decide the same query with cvc5's integer encoding of bit-vectors (keeps mod-2^k semantics)
		r2, _, ferr := s.oneShot(conj, nil)
		if ferr == nil {
			res = r2
			s.FallbackQueries++
			s.lastViaFallback = true
		}
	}
	switch res {
	case ResSat:
		s.Sat++
	case ResUnsat:
		s.Unsat++
	default:
		s.Unknown++
	}
	d := time.Since(start)
	s.Time += d
	if s.Log != nil {
		fmt.Fprintf(s.Log, "; query %d took %v conjuncts=%d result=%v\n", s.Queries, d, len(conj), res)
	}
	s.cache[key] = res
	return res, err
}

// Model is returned by CheckModel; it stays valid until Release.
type Model struct {
	s        *Solver
	fallback bool
	conj     []*Term
}

// CheckModel is Check that keeps the solver in the sat state so that values can be read.
func (s *Solver) CheckModel(a, b *Term, extra ...*Term) (Result, *Model) {
	if s.Err == nil {
		for _, t := range extra {
			s.define(t)
		}
	}
	r, _ := s.check(a, b, true)
	if r != ResSat {
		return r, nil
	}
	return r, &Model{s: s, fallback: s.lastViaFallback, conj: s.lastConj}
}

func (m *Model) Release2() {}

// Release ends the use of the model (the model of a check-sat-assuming stays valid until the next check).
func (m *Model) Release() {}

// Eval returns the values of the given terms in the current model.
func (m *Model) Eval(ts []*Term) ([]uint64, error) {
	s := m.s
	out := make([]uint64, len(ts))
	if len(ts) == 0 {
		return out, nil
	}
	if m.fallback {
		r, vals, err := s.oneShot(m.conj, ts)
		if err != nil {
			return nil, err
		}
		if r != ResSat {
			return nil, fmt.Errorf("fallback solver lost the model (%v)", r)
		}
		return vals, nil
	}
	// terms must be defined; defining at a pushed level is fine for z3 but they would be popped:
	// so only ask for already-defined terms or constants; otherwise define via let-free inline expression.
	var sb strings.Builder
	sb.WriteString("(get-value (")
	for _, t := range ts {
		sb.WriteString(s.inline(t))
		sb.WriteString(" ")
	}
	sb.WriteString("))\n")
	start := time.Now()
	s.send(sb.String())
	lines, err := s.sync()
	s.Time += time.Since(start)
	if err != nil {
		return nil, err
	}
	vals, perr := parseValues(strings.Join(lines, " "))
	if perr != nil {
		return nil, perr
	}
	if len(vals) != len(ts) {
		return nil, fmt.Errorf("get-value: expected %d values, got %d: %q", len(ts), len(vals), lines)
	}
	copy(out, vals)
	return out, nil
}

// inline prints a term as a closed expression using defined names where available.
func (s *Solver) inline(t *Term) string {
	if int(t.ID) < len(s.emitted) && s.emitted[t.ID] {
		return s.ref(t)
	}
	switch t.Op {
	case OpConst:
		return constSMT(t)
	case OpVar:
		// undeclared variable: unconstrained; caller should treat as 0. Declare is not allowed under push
		// for our purposes, so return a zero constant.
		return constSMT(&Term{Op: OpConst, W: t.W})
	case OpRead:
		if !s.funs[t.Name] {
			return "#x00"
		}
		return "(m_" + t.Name + " " + s.inline(t.Args[0]) + ")"
	case OpExtract:
		return fmt.Sprintf("((_ extract %d %d) %s)", t.K>>8, t.K&0xff, s.inline(t.Args[0]))
	case OpZExt:
		return fmt.Sprintf("((_ zero_extend %d) %s)", t.W-t.Args[0].W, s.inline(t.Args[0]))
	case OpSExt:
		return fmt.Sprintf("((_ sign_extend %d) %s)", t.W-t.Args[0].W, s.inline(t.Args[0]))
	}
	var sb strings.Builder
	sb.WriteString("(")
	sb.WriteString(opSMT[t.Op])
	for _, a := range t.Args {
		sb.WriteString(" ")
		sb.WriteString(s.inline(a))
	}
	sb.WriteString(")")
	return sb.String()
}

// parseValues parses "((e1 v1) (e2 v2) ...)" and returns v's in order.
func parseValues(str string) ([]uint64, error) {
	p := &sparser{s: str}
	p.ws()
	if !p.eat('(') {
		return nil, fmt.Errorf("get-value: bad response %q", str)
	}
	var out []uint64
	for {
		p.ws()
		if p.eat(')') {
			break
		}
		if !p.eat('(') {
			return nil, fmt.Errorf("get-value: bad pair in %q", str)
		}
		p.skipSexp() // the expression
		p.ws()
		v, err := p.value()
		if err != nil {
			return nil, err
		}
		out = append(out, v)
		p.ws()
		if !p.eat(')') {
			return nil, fmt.Errorf("get-value: unterminated pair in %q", str)
		}
	}
	return out, nil
}

type sparser struct {
	s string
	i int
}

func (p *sparser) ws() {
	for p.i < len(p.s) && (p.s[p.i] == ' ' || p.s[p.i] == '\n' || p.s[p.i] == '\t') {
		p.i++
	}
}
func (p *sparser) eat(c byte) bool {
	if p.i < len(p.s) && p.s[p.i] == c {
		p.i++
		return true
	}
	return false
}
func (p *sparser) skipSexp() {
	p.ws()
	if p.i < len(p.s) && p.s[p.i] == '(' {
		depth := 0
		for p.i < len(p.s) {
			switch p.s[p.i] {
			case '(':
				depth++
			case ')':
				depth--
			}
			p.i++
			if depth == 0 {
				return
			}
		}
		return
	}
	for p.i < len(p.s) && p.s[p.i] != ' ' && p.s[p.i] != ')' {
		p.i++
	}
}
func (p *sparser) value() (uint64, error) {
	start := p.i
	if strings.HasPrefix(p.s[p.i:], "(_ bv") { // (_ bv123 64)
		p.i += 5
		j := p.i
		for p.i < len(p.s) && p.s[p.i] >= '0' && p.s[p.i] <= '9' {
			p.i++
		}
		v, err := strconv.ParseUint(p.s[j:p.i], 10, 64)
		for p.i < len(p.s) && p.s[p.i] != ')' {
			p.i++
		}
		p.i++
		return v, err
	}
	for p.i < len(p.s) && p.s[p.i] != ' ' && p.s[p.i] != ')' {
		p.i++
	}
	tok := p.s[start:p.i]
	switch {
	case tok == "true":
		return 1, nil
	case tok == "false":
		return 0, nil
	case strings.HasPrefix(tok, "#x"):
		return strconv.ParseUint(tok[2:], 16, 64)
	case strings.HasPrefix(tok, "#b"):
		return strconv.ParseUint(tok[2:], 2, 64)
	}
	return 0, fmt.Errorf("get-value: cannot parse value %q", tok)
}

// oneShot decides the conjunction conj with a fresh cvc5 process using the integer encoding of bit-vectors
// (--solve-bv-as-int=sum) and, when sat, evaluates the terms in eval.
func (s *Solver) oneShot(conj []*Term, eval []*Term) (Result, []uint64, error) {
	return s.oneShotWith(conj, eval, true)
}

func (s *Solver) oneShotWith(conj []*Term, eval []*Term, bvAsInt bool) (Result, []uint64, error) {
	var sb strings.Builder
	sb.WriteString("(set-logic ALL)\n")
	emitted := map[int32]bool{}
	funs := map[string]bool{}
	var emit func(t *Term)
	emit = func(root *Term) {
		type fr struct {
			t *Term
			i int
		}
		stack := []fr{{root, 0}}
		for len(stack) > 0 {
			top := &stack[len(stack)-1]
			t := top.t
			if emitted[t.ID] {
				stack = stack[:len(stack)-1]
				continue
			}
			if top.i < len(t.Args) {
				a := t.Args[top.i]
				top.i++
				if !emitted[a.ID] {
					stack = append(stack, fr{a, 0})
				}
				continue
			}
			emitted[t.ID] = true
			stack = stack[:len(stack)-1]
			switch t.Op {
			case OpConst:
				continue
			case OpVar:
				sb.WriteString("(declare-const v_" + t.Name + " " + sortSMT(t.W) + ")\n")
				continue
			}
			var body string
			switch t.Op {
			case OpRead:
				if !funs[t.Name] {
					funs[t.Name] = true
					sb.WriteString("(declare-fun m_" + t.Name + " ((_ BitVec 64)) (_ BitVec 8))\n")
				}
				body = "(m_" + t.Name + " " + s.ref(t.Args[0]) + ")"
			case OpExtract:
				body = fmt.Sprintf("((_ extract %d %d) %s)", t.K>>8, t.K&0xff, s.ref(t.Args[0]))
			case OpZExt:
				body = fmt.Sprintf("((_ zero_extend %d) %s)", t.W-t.Args[0].W, s.ref(t.Args[0]))
			case OpSExt:
				body = fmt.Sprintf("((_ sign_extend %d) %s)", t.W-t.Args[0].W, s.ref(t.Args[0]))
			default:
				var b strings.Builder
				b.WriteString("(")
				b.WriteString(opSMT[t.Op])
				for _, a := range t.Args {
					b.WriteString(" ")
					b.WriteString(s.ref(a))
				}
				b.WriteString(")")
				body = b.String()
			}
			sb.WriteString("(define-fun t" + strconv.Itoa(int(t.ID)) + " () " + sortSMT(t.W) + " " + body + ")\n")
		}
	}
	for _, c := range conj {
		emit(c)
	}
	for _, t := range eval {
		emit(t)
	}
	for _, c := range conj {
		sb.WriteString("(assert " + s.ref(c) + ")\n")
	}
	sb.WriteString("(check-sat)\n")
	if len(eval) > 0 {
		sb.WriteString("(get-value (")
		for _, t := range eval {
			sb.WriteString(s.ref(t) + " ")
		}
		sb.WriteString("))\n")
	}
	args := []string{"--lang=smt2", fmt.Sprintf("--tlimit=%d", 120000)}
	if bvAsInt {
		args = append(args, "--solve-bv-as-int=sum")
	}
	if len(eval) > 0 {
		args = append(args, "--produce-models")
	}
	cmd := exec.Command("cvc5", args...)
	cmd.Stdin = strings.NewReader(sb.String())
	start := time.Now()
	outb, err := cmd.Output()
	s.Time += time.Since(start)
	out := string(outb)
	if s.Log != nil {
		fmt.Fprintf(s.Log, "; fallback cvc5 bv-as-int: %q (%v)\n", strings.SplitN(out, "\n", 2)[0], time.Since(start))
	}
	lines := strings.Split(strings.TrimSpace(out), "\n")
	if len(lines) == 0 {
		return ResUnknown, nil, fmt.Errorf("cvc5 fallback: no output (%v)", err)
	}
	switch strings.TrimSpace(lines[0]) {
	case "unsat":
		return ResUnsat, nil, nil
	case "sat":
		if len(eval) == 0 {
			return ResSat, nil, nil
		}
		vals, perr := parseValues(strings.Join(lines[1:], " "))
		if perr != nil || len(vals) != len(eval) {
			return ResSat, nil, fmt.Errorf("cvc5 fallback: cannot read model: %v", perr)
		}
		return ResSat, vals, nil
	}
	return ResUnknown, nil, nil
}
