package tcp

import (
	"context"

	"github.com/go-netty/go-netty/internal/vrt"
	"github.com/go-netty/go-netty/transport"
)

// ZZ_C12_Options: two goroutines resolve the options of their Connect / Listen from contexts that carry the SAME
// caller-owned *Options value (what two concurrent bs.Connect(url, tcp.WithOptions(opts)) calls do): resolving
// must not write to the shared value.
func ZZ_C12_Options(timeoutSet int) {
	opts := &Options{KeepAlive: true}
	if timeoutSet != 0 {
		opts.Timeout = 5
		opts.KeepAlivePeriod = 7
	}
	vrt.Monitored(opts)
	topts := &transport.Options{Context: context.Background()}
	WithOptions(opts)(topts)
	ctx := topts.Context
	var got [2]*Options
	for i := 0; i < 2; i++ {
		i := i
		vrt.Go("connect"+string(rune('0'+i)), func() {
			o := FromContext(ctx, DefaultOption)
			_ = o.Timeout
			_ = o.KeepAlivePeriod
			got[i] = o
		})
	}
	vrt.Quiesce()
	vrt.Assert(got[0] == opts && got[1] == opts, "c12-options-resolved")
	vrt.Reach("c12-tcp-options-done")
}
