#!/usr/bin/env python3
"""Regenerates /verif/MANIFEST.json from tools/manifest_src.json (claimed checks) and properties.jsonl."""
import json, os, subprocess
D = os.path.dirname(os.path.dirname(os.path.abspath(__file__)))
src = json.load(open(os.path.join(D, 'tools', 'manifest_src.json')))
props = [json.loads(l)['id'] for l in open(os.path.join(D, 'properties.jsonl'))]
checks = []
for pid in props:
    c = src['checks'].get(pid)
    if not c:
        continue
    checks.append({
        "property_id": pid,
        "quick_cmd": f"./check {pid} quick",
        "thorough_cmd": f"./check {pid} thorough",
        "evidence_file": f"/verif/evidence/{pid}.json",
        "replay_cmd_template": "cat {path}",
        "engine": "gosym",
        "level_claimed": {"category": "model_checking", "text": c['text'], "design_ref": c.get('design_ref', 'DESIGN.md §6 ' + pid)},
        "level_note": c['note'],
        "technique": c.get('technique', 'bounded symbolic execution of the Go SSA of /repo with SMT (z3) deciding every assertion'),
    })
na = [{"property_id": p, "reason": src['not_applicable'].get(p, "check not built yet (work in progress)")} for p in props if p not in src['checks']]
fixes = subprocess.run(['git', '-C', '/repo', 'log', '--format=%h %s'], capture_output=True, text=True).stdout.splitlines()
m = {
    "version": 1,
    "setup_cmd": "cd /verif/engine && GOFLAGS=-mod=mod GOPROXY=off GOSUMDB=off GOTOOLCHAIN=local go build -o /verif/bin/gosym ./cmd/gosym",
    "hooks": {
        "guard": "verif",
        "enable": "none needed: harnesses and the vrt runtime are injected by overlay (go/packages Overlay for the engine, go test -overlay for native replay); /repo carries no hook code",
        "baseline_off_cmd": "cd /repo && go test -mod=mod -json -vet=off -count=1 -timeout 25m ./...",
        "source_commits": [],
        "add_only": True,
    },
    "engines": [{"name": "gosym", "path": "/verif/engine", "serves_properties": [c['property_id'] for c in checks],
                 "kind_free_text": "own symbolic executor for Go SSA (x/tools go/ssa v0.29.0): bit-vector terms, functional byte arrays, explicit cloneable heap, threads with symbolic schedule variables and state merging; z3 4.8.12 decides every branch feasibility and every assertion"}],
    "checks": checks,
    "notes": src.get('notes', ''),
    "not_applicable": na,
}
json.dump(m, open(os.path.join(D, 'MANIFEST.json'), 'w'), indent=1)
print("checks:", [c['property_id'] for c in checks], "n/a:", [x['property_id'] for x in na])
