package netty

import (
	"context"
	"errors"
	"io"
	"net"
	"time"

	"github.com/go-netty/go-netty/internal/vrt"
	"github.com/go-netty/go-netty/transport"
)

// zzAddr is a dummy net.Addr.
type zzAddr struct{}

func (zzAddr) Network() string { return "zz" }
func (zzAddr) String() string  { return "zz:0" }

var zzErrClosed = errors.New("zz: use of closed transport")

// zzTransport is a recording mock transport.
type zzTransport struct {
	log       []byte // every byte handed to Write/Writev, in order
	writes    int    // number of Write/Writev calls
	flushes   int
	closes    int
	unflushed int // bytes logged since the last Flush
	inWrite   bool
	inFlush   bool
	closed    bool
	yield     bool // scheduling point inside Write/Writev (so "write in progress" is an observable state)
	// fault injection
	failWriteAt int   // 1-based index of the Write/Writev call that fails (0 = never)
	failFlushAt int   // 1-based index of the Flush call that fails
	writeErr    error // error returned by the failing call
	// inbound side
	readData  []byte
	readOff   int
	readErr   error         // returned when readData is exhausted (nil: block until closed)
	readBlock chan struct{} // closed by Close; Read blocks on it when there is nothing to return
	reads     int
	// hooks
	onWrite func(p []byte)
	onClose func()
	// closedWhileWriting: Close arrived while a Write/Writev was in progress (C06)
	closedWhileWriting bool
	writesAfterClose   int
	gate               chan struct{} // when non-nil, Write/Writev block until it is closed (stalled sender)
	buffers            int           // buffers handed to Write/Writev so far
	accepted           bool          // handed out by a mock acceptor's Accept
	keepUnits          bool          // record the length of every non-empty buffer handed over (opt-in: it is state)
	units              []int
}

func newZZTransport() *zzTransport {
	return &zzTransport{readBlock: make(chan struct{})}
}

func (t *zzTransport) record(p []byte) {
	t.log = append(t.log, p...)
	t.unflushed += len(p)
	if t.keepUnits && len(p) > 0 {
		t.units = append(t.units, len(p))
	}
}

func (t *zzTransport) Write(p []byte) (int, error) {
	if t.writes < 8 {
		t.writes++ // saturating (an endlessly spinning sender stays in a finite state space)
	}
	if t.closed {
		t.writesAfterClose++
		return 0, zzErrClosed
	}
	if t.failWriteAt == t.writes {
		return 0, t.writeErr
	}
	t.inWrite = true
	if t.gate != nil {
		<-t.gate
	}
	if t.yield {
		vrt.Yield()
	}
	if t.onWrite != nil {
		t.onWrite(p)
	}
	if t.buffers < 32 {
		t.buffers++ // saturating
	}
	t.record(p)
	t.inWrite = false
	return len(p), nil
}

func (t *zzTransport) Writev(buffs transport.Buffers) (int64, error) {
	if t.writes < 8 {
		t.writes++ // saturating (an endlessly spinning sender stays in a finite state space)
	}
	if t.closed {
		t.writesAfterClose++
		return 0, zzErrClosed
	}
	if t.failWriteAt == t.writes {
		return 0, t.writeErr
	}
	t.inWrite = true
	if t.gate != nil {
		<-t.gate
	}
	if t.yield {
		vrt.Yield()
	}
	var n int64
	for _, b := range buffs {
		if t.buffers < 32 {
			t.buffers++ // saturating (a sender that spins handing over empty vectors stays in a finite state space)
		}
		if t.onWrite != nil {
			t.onWrite(b)
		}
		t.record(b)
		n += int64(len(b))
	}
	t.inWrite = false
	return n, nil
}

func (t *zzTransport) Flush() error {
	if t.yield {
		// a flush is a system call, not an atomic step: "flush of written bytes in progress" is an observable
		// state (a flush with nothing written since the last one transmits nothing and is not part of a batch)
		t.inFlush = t.unflushed > 0
		vrt.Yield()
		t.inFlush = false
	}
	if t.flushes < 8 {
		t.flushes++ // saturating
	}
	if t.failFlushAt == t.flushes {
		return t.writeErr
	}
	if t.closed {
		return zzErrClosed
	}
	t.unflushed = 0
	return nil
}

func (t *zzTransport) Read(p []byte) (int, error) {
	if t.reads < 4 {
		t.reads++ // saturating counter (keeps spinning readers in a finite state space)
	}
	if t.readOff < len(t.readData) {
		n := copy(p, t.readData[t.readOff:])
		t.readOff += n
		return n, nil
	}
	if t.readErr != nil {
		return 0, t.readErr
	}
	<-t.readBlock
	return 0, zzErrClosed
}

func (t *zzTransport) Close() error {
	if t.yield {
		vrt.Yield() // the mock's state is plain memory: every transport call is a scheduling point
	}
	t.closes++
	if t.inWrite || t.inFlush {
		t.closedWhileWriting = true
	}
	if t.onClose != nil {
		t.onClose()
	}
	if !t.closed {
		t.closed = true
		close(t.readBlock)
	}
	return nil
}

func (t *zzTransport) LocalAddr() net.Addr                { return zzAddr{} }
func (t *zzTransport) RemoteAddr() net.Addr               { return zzAddr{} }
func (t *zzTransport) SetDeadline(time.Time) error        { return nil }
func (t *zzTransport) SetReadDeadline(time.Time) error    { return nil }
func (t *zzTransport) SetWriteDeadline(time.Time) error   { return nil }
func (t *zzTransport) RawTransport() interface{}          { return t }

// zzNetErr is a net.Error with a chosen Timeout().
type zzNetErr struct{ timeout bool }

func (e *zzNetErr) Error() string   { return "zz net error" }
func (e *zzNetErr) Timeout() bool   { return e.timeout }
func (e *zzNetErr) Temporary() bool { return false }

// zzProbe is a handler that records what it sees; which handler interfaces it exposes is chosen by wrapping.
type zzProbe struct {
	actives    int
	reads      int
	inactives  int
	exceptions []Exception
	events     []Event
	inactiveEx Exception
	swallowEx  bool // do not forward exceptions
}

func (p *zzProbe) HandleActive(ctx ActiveContext) { p.actives++; ctx.HandleActive() }
func (p *zzProbe) HandleException(ctx ExceptionContext, ex Exception) {
	p.exceptions = append(p.exceptions, ex)
	if !p.swallowEx {
		ctx.HandleException(ex)
	}
}
func (p *zzProbe) HandleInactive(ctx InactiveContext, ex Exception) {
	p.inactives++
	p.inactiveEx = ex
	ctx.HandleInactive(ex)
}

// zzNewChannel builds a real channel over the mock transport with the given pipeline, without starting the read loop.
func zzNewChannel(pl Pipeline, tr transport.Transport, queue int, untilWrite bool) *channel {
	ch := newChannelWith(context.Background(), pl, tr, AsyncExecutor(), 1, queue, untilWrite).(*channel)
	pl.(*pipeline).channel = ch
	return ch
}

func zzSame(got, want []byte, label string) {
	vrt.Assert(len(got) == len(want), label+"-length")
	if len(want) > 0 {
		i := vrt.IntIn(0, len(want)-1)
		vrt.Assert(got[i] == want[i], label+"-content")
	}
}

// zzFragReader / zzChunkWT: reader-typed and writer-to-typed carriers.
type zzFragReader struct {
	data        []byte
	off         int
	splits      int
	eofWithData bool
}

func (s *zzFragReader) Read(p []byte) (int, error) {
	rem := len(s.data) - s.off
	if rem == 0 {
		return 0, io.EOF
	}
	if len(p) == 0 {
		return 0, nil
	}
	k := rem
	if len(p) < k {
		k = len(p)
	}
	if k > 1 && s.splits > 0 {
		c := zzSplit(k)
		if c < k {
			s.splits--
			k = c
		}
	}
	copy(p, s.data[s.off:s.off+k])
	s.off += k
	if s.off == len(s.data) && s.eofWithData {
		return k, io.EOF
	}
	return k, nil
}

type zzChunkWT struct {
	data  []byte
	chunk int
}

func (w *zzChunkWT) WriteTo(dst io.Writer) (int64, error) {
	buf := make([]byte, w.chunk)
	var total int64
	for off := 0; off < len(w.data); off += w.chunk {
		k := copy(buf, w.data[off:])
		n, err := dst.Write(buf[:k])
		total += int64(n)
		if err != nil {
			return total, err
		}
	}
	return total, nil
}

// zzSplit picks the size of a short read out of k available bytes: every size for small k,
// the sizes 1, k/2, k-1 (or no split) for larger k.
func zzSplit(k int) int {
	if k <= 8 {
		return vrt.Choose(k) + 1
	}
	switch vrt.Choose(4) {
	case 0:
		return 1
	case 1:
		return k / 2
	case 2:
		return k - 1
	}
	return k
}

func vrtBackground() context.Context { return context.Background() }

// exported aliases for harness packages outside package netty (they use the public API only)
type ZZTransport = zzTransport

func NewZZTransport() *ZZTransport { return newZZTransport() }
func (t *zzTransport) Log() []byte  { return t.log }
func (t *zzTransport) Closes() int  { return t.closes }
func (t *zzTransport) KeepUnits()   { t.keepUnits = true }
func (t *zzTransport) Units() []int { return t.units }
func (t *zzTransport) Unflushed() int { return t.unflushed }
func (t *zzTransport) SetReadData(b []byte, err error) { t.readData, t.readErr = b, err }
