// Package zzharness holds verification harnesses that need the codecs together with the channel
// (package netty cannot import its codecs). Public API only.
package zzharness

import (
	"bytes"
	"context"
	"encoding/binary"
	"io"
	"strings"

	"github.com/go-netty/go-netty"
	"github.com/go-netty/go-netty/codec/format"
	"github.com/go-netty/go-netty/codec/frame"
	"github.com/go-netty/go-netty/internal/vrt"
)

type chunkWT struct{ data []byte }

func (w *chunkWT) WriteTo(dst io.Writer) (int64, error) {
	var total int64
	for i := range w.data {
		n, err := dst.Write(w.data[i : i+1])
		total += int64(n)
		if err != nil {
			return total, err
		}
	}
	return total, nil
}

type fragR struct {
	data []byte
	off  int
}

func (r *fragR) Read(p []byte) (int, error) {
	if r.off >= len(r.data) {
		return 0, io.EOF
	}
	// two fragments: first byte alone, then the rest
	k := 1
	if r.off > 0 {
		k = len(r.data) - r.off
	}
	if k > len(p) {
		k = len(p)
	}
	copy(p, r.data[r.off:r.off+k])
	r.off += k
	return k, nil
}

// parkReads is an inbound handler that consumes the transport like a codec would; with nothing to read the
// read loop parks inside it (the mock transport blocks until closed).
type parkReads struct{}

func (parkReads) HandleRead(ctx netty.InboundContext, m netty.Message) {
	if r, ok := m.(io.Reader); ok {
		var b [1]byte
		r.Read(b[:])
	}
}

type swallow struct{ n int }

func (s *swallow) HandleException(ctx netty.ExceptionContext, ex netty.Exception) { s.n++ }

// message builds the outbound message of writer w for the carrier and returns the bytes expected on the wire.
func message(carrier int, tag byte, size int) (netty.Message, []byte) {
	var content []byte
	if size > 64 {
		// a large message: zero filler between a tag and a symbolic last byte (fully symbolic content of 65 000 bytes
		// makes the branch-free whole-wire comparison below a 65 000-term query)
		content = make([]byte, size)
		content[size-1] = vrt.Byte()
	} else {
		content = make([]byte, size)
		for i := range content {
			content[i] = vrt.Byte()
		}
	}
	content[0] = tag
	wire := append([]byte(nil), content...)
	switch carrier {
	case 0:
		return content, wire
	case 1:
		return [][]byte{content[:1], content[1:]}, wire
	case 2:
		return bytes.NewBuffer(content), wire
	case 3:
		return &chunkWT{data: content}, wire
	case 4:
		return &fragR{data: content}, wire
	case 5: // README pipeline: delimiter codec + text codec, string message
		for i := range content {
			vrt.Assume(content[i] != '\n')
		}
		return string(content), append(wire, '\n')
	case 6: // length-field codec, []byte message
		return content, append([]byte{0, byte(size)}, wire...)
	case 7: // varint codec, []byte message
		return content, append([]byte{byte(size)}, wire...)
	case 8: // delimiter codec with a []byte message (sent as [][]byte)
		return content, append(wire, '\n')
	case 9: // *bytes.Reader: an io.WriterTo that writes everything at once (one low-level write)
		return bytes.NewReader(content), wire
	case 10: // *strings.Reader, likewise
		return strings.NewReader(string(content)), wire
	}
	return nil, nil
}

// ZZ_C09_Contiguous: two goroutines write one message each to the same channel; the bytes of each message
// must appear contiguously on the wire.
func ZZ_C09_Contiguous(q, carrierA, carrierB, sizeA int) {
	tr := netty.NewZZTransport()
	tr.KeepUnits()
	pl := netty.NewPipeline()
	pl.AddLast(parkReads{})
	codecCarrier := carrierA
	if carrierB > codecCarrier {
		codecCarrier = carrierB
	}
	switch codecCarrier {
	case 5:
		pl.AddLast(frame.DelimiterCodec(64, "\n", true), format.TextCodec())
	case 6:
		pl.AddLast(frame.LengthFieldCodec(binary.BigEndian, 64, 0, 2, 0, 2))
	case 7:
		pl.AddLast(frame.VarintLengthFieldCodec(64))
	case 8:
		pl.AddLast(frame.DelimiterCodec(64, "\n", true))
	}
	sw := &swallow{}
	pl.AddLast(sw)
	var ch netty.Channel
	if q == 0 {
		ch = netty.NewChannel()(1, context.Background(), pl, tr, netty.AsyncExecutor())
	} else {
		ch = netty.NewAsyncWriteChannel(q, true)(1, context.Background(), pl, tr, netty.AsyncExecutor())
	}
	pl.ServeChannel(ch)
	ma, wa := message(carrierA, 0xA0, sizeA)
	mb, wb := message(carrierB, 0xB0, 2)
	vrt.Facet("carrierA", carrierA)
	vrt.Facet("carrierB", carrierB)
	vrt.Go("wa", func() { vrt.Assert(ch.Write(ma) == nil, "c09-write-accepted") })
	vrt.Go("wb", func() { vrt.Assert(ch.Write(mb) == nil, "c09-write-accepted") })
	vrt.Quiesce()
	vrt.Assert(sw.n == 0, "c09-no-exception")
	log := tr.Log()
	vrt.Assert(len(log) == len(wa)+len(wb), "c09-all-bytes-on-the-wire")
	// every buffer handed to the transport is the next piece of message A or of message B, intact (this holds for
	// every carrier, also for those whose messages are transmitted in several pieces - the known findings below are
	// about where the pieces land, not about their content). Which message a piece belongs to is not observable, so
	// all attributions are followed at once (branch-free: poss[pa] = "pa bytes of A and pos-pa bytes of B explain the
	// first pos bytes of the wire").
	if len(wa) <= 8 && len(wb) <= 8 {
		var poss [10]byte
		poss[0] = 1
		pos := 0
		for _, ln := range tr.Units() {
			var next [10]byte
			for pa := 0; pa <= len(wa) && pa <= pos; pa++ {
				pb := pos - pa
				if pb > len(wb) {
					continue
				}
				if pa+ln <= len(wa) {
					var d byte
					for i := 0; i < ln; i++ {
						d |= log[pos+i] ^ wa[pa+i]
					}
					next[pa+ln] |= poss[pa] & (1 - zzNZ(d))
				}
				if pb+ln <= len(wb) {
					var d byte
					for i := 0; i < ln; i++ {
						d |= log[pos+i] ^ wb[pb+i]
					}
					next[pa] |= poss[pa] & (1 - zzNZ(d))
				}
			}
			poss = next
			pos += ln
		}
		vrt.Assert(pos == len(log) && poss[len(wa)] == 1, "c09-every-low-level-write-is-an-intact-piece-of-a-message")
	}
	ab := append(append([]byte(nil), wa...), wb...)
	ba := append(append([]byte(nil), wb...), wa...)
	// branch-free comparison (one solver query instead of a fork per byte)
	var dAB, dBA byte
	for i := range log {
		dAB |= log[i] ^ ab[i]
		dBA |= log[i] ^ ba[i]
	}
	vrt.Assert(dAB == 0 || dBA == 0, "c09-messages-contiguous")
	vrt.Reach("c09-done")
}

// zzNZ is 1 iff d != 0 (branch-free).
func zzNZ(d byte) byte { return (d | (^d + 1)) >> 7 }
