// Package vrt is the tiny runtime used by verification harnesses.
//
// Under the symbolic executor (gosym) the functions marked "intrinsic" are
// intercepted by name and never executed; natively (go test -overlay ...) they
// read their values from a replay file, so that a solver model can be replayed
// against the real build.
//
// The second half of the file contains Go models of a few standard-library
// facilities (context, sync.Map, sync.Once, errors.As/Is) to which the executor
// redirects calls; they are ordinary Go and are executed symbolically.
package vrt

import (
	"context"
	"encoding/json"
	"errors"
	"fmt"
	"io"
	"net"
	"os"
	"reflect"
	"runtime"
	"strings"
	"sync"
	"sync/atomic"
	"testing"
	"time"
)

// ---------------------------------------------------------------------------
// replay state (native mode only)

type replayVal struct {
	Kind  string `json:"kind"`
	Int   int64  `json:"int"`
	Bytes []int  `json:"bytes"`
	Name  string `json:"name"`
}

type replayFile struct {
	Harness string      `json:"harness"`
	Args    []int64     `json:"args"`
	Inputs  []replayVal `json:"inputs"`
	Label   string      `json:"label"`
}

var (
	rp      *replayFile
	rpPos   int
	reached []string
)

type assertFail struct{ label string }
type assumeFail struct{}
type replayExhausted struct{}

func next(kind string) replayVal {
	if rp == nil {
		panic("vrt: nondeterministic input requested outside replay")
	}
	if rpPos >= len(rp.Inputs) {
		panic(replayExhausted{})
	}
	v := rp.Inputs[rpPos]
	rpPos++
	if v.Kind != kind {
		panic(fmt.Sprintf("vrt: replay mismatch at input %d: recorded %s, requested %s", rpPos-1, v.Kind, kind))
	}
	return v
}

// ---------------------------------------------------------------------------
// intrinsics

// Byte returns an arbitrary byte.
func Byte() byte { return byte(next("byte").Int) }

// Int returns an arbitrary int.
func Int() int { return int(next("int").Int) }

// Bool returns an arbitrary bool.
func Bool() bool { return next("bool").Int != 0 }

// IntIn returns an arbitrary int in [lo, hi].
func IntIn(lo, hi int) int { return int(next("int").Int) }

// Bytes returns a slice of n arbitrary bytes (n may itself be symbolic).
func Bytes(n int) []byte {
	v := next("bytes")
	b := make([]byte, n)
	for i := range b {
		if i < len(v.Bytes) {
			b[i] = byte(v.Bytes[i])
		}
	}
	return b
}

// Choose returns an arbitrary value in [0,n); the executor forks so that the result is concrete.
func Choose(n int) int { return int(next("int").Int) }

// Concrete returns x; the executor forks over every feasible value so that the result is concrete.
func Concrete(x int) int { return x }

// Assume restricts the inputs considered.
func Assume(c bool) {
	if !c {
		panic(assumeFail{})
	}
}

// Assert states the property.
func Assert(c bool, label string) {
	if !c {
		panic(assertFail{label})
	}
}

// Reach marks a location that must be reachable (vacuity witness).
func Reach(label string) { reached = append(reached, label) }

// Facet names one dimension of a counterexample.
func Facet(name string, v int) {}

// Go starts a harness thread.
func Go(name string, f func()) { go f() }

// Yield is a scheduling point.
func Yield() { runtime.Gosched() }

// Quiesce waits until no other thread can move; it reports whether some thread is still blocked.
func Quiesce() bool { time.Sleep(50 * time.Millisecond); return false }

// QuiesceIdle is Quiesce for situations in which the harness itself keeps a goroutine polling (e.g. Close waiting
// for a sender the harness has stalled): it returns when nothing but goroutines that sleep-poll can move and each of
// them has polled again since the last progress of anyone else. (Plain Quiesce reports such a poll loop as a hang.)
func QuiesceIdle() bool { time.Sleep(50 * time.Millisecond); return false }

// Monitored hands an object the harness allocated over to the race monitor: objects allocated by harness code are
// exempt by default (probes and mocks are unsynchronised on purpose); a caller-owned value that the repository's
// API receives and may share between goroutines is not a probe.
func Monitored(p interface{}) {}

// Cut ends the current path (recorded as a deliberate cut).
func Cut(label string) { panic(assumeFail{}) }

// IsRuntimeError reports whether a recovered panic value is a Go runtime error.
func IsRuntimeError(v interface{}) bool { _, ok := v.(runtime.Error); return ok }

// Self returns an identifier of the calling thread (stable within one execution).
func Self() int { return 0 }

// Symbolic reports whether the harness runs under the symbolic executor.
func Symbolic() bool { return false } // the executor returns true

// Now returns the symbolic clock in nanoseconds (executor only).
func Now() int64 { return time.Now().UnixNano() }

// Advance lets d nanoseconds pass on the symbolic clock.
func Advance(d int64) {}

// Slept returns the time the calling thread has spent in time.Sleep so far.
func Slept() int64 { return 0 }

// Blocked returns the number of other threads that are parked and cannot move.
func Blocked() int { return 0 }

// Trace prints a value when tracing is on.
func Trace(msg string, v interface{}) {}

func atomicBegin() {}
func atomicEnd()   {}

// Atomic runs f without interleaving other threads.
func Atomic(f func()) {
	atomicBegin()
	defer atomicEnd()
	f()
}

// Panics runs f and returns the recovered panic value (nil if f returned normally).
func Panics(f func()) (v interface{}) {
	defer func() {
		v = recover()
		if v != nil {
			switch v.(type) {
			case assertFail, assumeFail, replayExhausted:
				panic(v)
			}
		}
	}()
	f()
	return nil
}

// ---------------------------------------------------------------------------
// native replay driver

// Replay runs the harnesses named in the replay files listed in $VRT_REPLAY (comma separated).
func Replay(t *testing.T, harnesses map[string]interface{}) {
	files := strings.Split(os.Getenv("VRT_REPLAY"), ",")
	for _, f := range files {
		if f == "" {
			continue
		}
		data, err := os.ReadFile(f)
		if err != nil {
			t.Fatalf("vrt: %v", err)
		}
		var r replayFile
		if err := json.Unmarshal(data, &r); err != nil {
			t.Fatalf("vrt: %s: %v", f, err)
		}
		fn, ok := harnesses[r.Harness]
		if !ok {
			fmt.Printf("VRT-RESULT file=%s result=SKIP\n", f)
			continue
		}
		res := runOne(&r, fn)
		fmt.Printf("VRT-RESULT file=%s result=%s\n", f, res)
	}
}

func runOne(r *replayFile, fn interface{}) (res string) {
	rp, rpPos, reached = r, 0, nil
	defer func() {
		rp = nil
		if v := recover(); v != nil {
			switch x := v.(type) {
			case assertFail:
				res = "FAIL label=" + x.label
			case assumeFail:
				res = "ASSUME-VIOLATED"
			case replayExhausted:
				res = "REPLAY-EXHAUSTED"
			default:
				res = fmt.Sprintf("PANIC %v", v)
			}
		}
	}()
	fv := reflect.ValueOf(fn)
	args := make([]reflect.Value, fv.Type().NumIn())
	for i := range args {
		var a int64
		if i < len(r.Args) {
			a = r.Args[i]
		}
		args[i] = reflect.ValueOf(int(a))
	}
	fv.Call(args)
	return "PASS"
}

// ---------------------------------------------------------------------------
// models of standard-library facilities (executed symbolically; see DESIGN.md §5)

// ErrorsAs models errors.As for the target types used by the repository.
func ErrorsAs(err error, target interface{}) bool {
	switch t := target.(type) {
	case *net.Error:
		for err != nil {
			if x, ok := err.(net.Error); ok {
				*t = x
				return true
			}
			err = errors.Unwrap(err)
		}
		return false
	}
	panic("vrt.ErrorsAs: unsupported target type")
}

// ErrorsIs models errors.Is for comparable errors.
func ErrorsIs(err, target error) bool {
	for err != nil {
		if err == target {
			return true
		}
		err = errors.Unwrap(err)
	}
	return false
}

type vctx struct {
	parent    *vctx
	owner     *vctx // nearest cancellable node (itself for a cancel context); nil below Background only
	done      chan struct{}
	cancelled int32
	children  []*vctx
	key, val  interface{}
	hasVal    bool
	// a deadline that does not expire within the explored window (expiry itself is not modelled)
	deadline    time.Time
	hasDeadline bool
}

var bgCtx = &vctx{}

func (c *vctx) Deadline() (time.Time, bool) {
	for n := c; n != nil; n = n.parent {
		if n.hasDeadline {
			return n.deadline, true
		}
	}
	return time.Time{}, false
}
func (c *vctx) Done() <-chan struct{} {
	if c.owner == nil {
		return nil
	}
	return c.owner.done
}
func (c *vctx) Err() error {
	if c.owner == nil {
		return nil
	}
	if atomic.LoadInt32(&c.owner.cancelled) != 0 {
		return context.Canceled
	}
	return nil
}
func (c *vctx) Value(key interface{}) interface{} {
	for n := c; n != nil; n = n.parent {
		if n.hasVal && n.key == key {
			return n.val
		}
	}
	return nil
}

func (c *vctx) cancelTree() {
	if c.cancelled != 0 {
		return
	}
	c.cancelled = 1
	close(c.done)
	for _, ch := range c.children {
		ch.cancelTree()
	}
}

func asVctx(parent context.Context) *vctx {
	p, ok := parent.(*vctx)
	if !ok {
		panic("vrt: foreign context implementation")
	}
	return p
}

// CtxBackground models context.Background.
func CtxBackground() context.Context { return bgCtx }

// CtxWithCancel models context.WithCancel: cancellation of the whole subtree is one atomic step.
func CtxWithCancel(parent context.Context) (context.Context, context.CancelFunc) {
	p := asVctx(parent)
	c := &vctx{parent: p, done: make(chan struct{})}
	c.owner = c
	if po := p.owner; po != nil {
		Atomic(func() {
			if po.cancelled != 0 {
				c.cancelled = 1
				close(c.done)
			} else {
				po.children = append(po.children, c)
			}
		})
	}
	return c, func() { Atomic(c.cancelTree) }
}

// CtxWithDeadline / CtxWithTimeout model context.WithDeadline / WithTimeout for deadlines that lie beyond the
// explored window: Deadline() reports it, Done() closes only through cancel (of this context or an ancestor).
func CtxWithDeadline(parent context.Context, d time.Time) (context.Context, context.CancelFunc) {
	c, cancel := CtxWithCancel(parent)
	v := c.(*vctx)
	v.deadline, v.hasDeadline = d, true
	return c, cancel
}

func CtxWithTimeout(parent context.Context, timeout time.Duration) (context.Context, context.CancelFunc) {
	return CtxWithDeadline(parent, time.Time{})
}

// CtxWithValue models context.WithValue.
func CtxWithValue(parent context.Context, key, val interface{}) context.Context {
	p := asVctx(parent)
	return &vctx{parent: p, owner: p.owner, key: key, val: val, hasVal: true}
}

type vmap struct {
	keys []interface{}
	vals []interface{}
}

var (
	syncMaps = map[*sync.Map]*vmap{}
)

func smap(m *sync.Map) *vmap {
	v := syncMaps[m]
	if v == nil {
		v = &vmap{}
		syncMaps[m] = v
	}
	return v
}

// SyncMapLoad etc. model sync.Map as a linearizable map (one atomic step per operation).
func SyncMapLoad(m *sync.Map, key interface{}) (value interface{}, ok bool) {
	Atomic(func() {
		v := smap(m)
		for i, k := range v.keys {
			if k == key {
				value, ok = v.vals[i], true
				return
			}
		}
	})
	return
}

func SyncMapStore(m *sync.Map, key, value interface{}) {
	Atomic(func() {
		v := smap(m)
		for i, k := range v.keys {
			if k == key {
				v.vals[i] = value
				return
			}
		}
		v.keys = append(v.keys, key)
		v.vals = append(v.vals, value)
	})
}

func SyncMapLoadOrStore(m *sync.Map, key, value interface{}) (actual interface{}, loaded bool) {
	Atomic(func() {
		v := smap(m)
		for i, k := range v.keys {
			if k == key {
				actual, loaded = v.vals[i], true
				return
			}
		}
		v.keys = append(v.keys, key)
		v.vals = append(v.vals, value)
		actual = value
	})
	return
}

func SyncMapDelete(m *sync.Map, key interface{}) {
	Atomic(func() {
		v := smap(m)
		for i, k := range v.keys {
			if k == key {
				v.keys = append(v.keys[:i:i], v.keys[i+1:]...)
				v.vals = append(v.vals[:i:i], v.vals[i+1:]...)
				return
			}
		}
	})
}

func SyncMapRange(m *sync.Map, f func(key, value interface{}) bool) {
	var keys, vals []interface{}
	Atomic(func() {
		v := smap(m)
		keys = append(keys, v.keys...)
		vals = append(vals, v.vals...)
	})
	for i := range keys {
		if !f(keys[i], vals[i]) {
			break
		}
	}
}

type vonce struct {
	done int32
	mu   sync.Mutex
}

var onces = map[*sync.Once]*vonce{}

// OnceDo models sync.Once.Do.
func OnceDo(o *sync.Once, f func()) {
	var v *vonce
	Atomic(func() {
		v = onces[o]
		if v == nil {
			v = &vonce{}
			onces[o] = v
		}
	})
	if atomic.LoadInt32(&v.done) == 0 {
		v.mu.Lock()
		defer v.mu.Unlock()
		if v.done == 0 {
			defer atomic.StoreInt32(&v.done, 1)
			f()
		}
	}
}

// ---------------------------------------------------------------------------
// encoding/json contract stub (executor only; see DESIGN.md C16)

var errJSON = errors.New("vrt: frame does not begin with one complete valid JSON object")

// jsonParse is intercepted by the executor: an uninterpreted parser returning an opaque object that
// remembers exactly which bytes and flags it was given, and an arbitrary verdict.
func jsonParse(data []byte, useNumber, disallow bool) (map[string]interface{}, bool) {
	return nil, false
}

// jsonDecode is what the executor runs in place of (*json.Decoder).Decode. Like the real decoder it reads ahead:
// everything the reader has is appended to the decoder's buffer (pending, the real struct's buf field), the value
// is parsed from the start of that buffer, and the parser consumes an arbitrary non-empty prefix; what it did not
// consume stays in the decoder for its next Decode call. The returned object records the bytes the parse started
// from (its "__frame__"): for a decoder made for one frame that is the frame.
func jsonDecode(r io.Reader, pending *[]byte, useNumber, disallow bool, v interface{}) error {
	data := *pending
	buf := make([]byte, 512)
	for i := 0; i < 16; i++ {
		n, err := r.Read(buf)
		data = append(data, buf[:n]...)
		if err != nil {
			break
		}
	}
	obj, ok := jsonParse(data, useNumber, disallow)
	if !ok {
		*pending = nil
		// the classes of error the real decoder reports: a syntax / type error, io.EOF when the input holds no value
		// at all (empty or white space only), io.ErrUnexpectedEOF when a value is cut short
		if len(data) == 0 {
			return io.EOF
		}
		switch Choose(3) {
		case 1:
			return io.EOF
		case 2:
			return io.ErrUnexpectedEOF
		}
		return errJSON
	}
	k := len(data)
	if k > 1 && k <= 4 {
		k = 1 + Choose(k) // the first value ends somewhere in the buffer
	}
	*pending = append([]byte(nil), data[k:]...)
	if p, isMap := v.(*map[string]interface{}); isMap {
		*p = obj
	}
	return nil
}

// JSONLastMarshal returns the bytes the json.Marshal stub produced last (executor only).
func JSONLastMarshal() []byte { return nil }

// JSONLastArg returns the value json.Marshal was last called with (executor only).
func JSONLastArg() interface{} { return nil }

// Fires returns the number of timer expirations so far; FireNo the expiration that started the calling
// timer-callback thread (0 elsewhere); TimersArmed the number of armed timers (executor only).
func Fires() int       { return 0 }
func FireNo() int      { return 0 }
func TimersArmed() int { return 0 }

// RunTimer fires one armed timer at an arbitrary instant not before its deadline and runs its callback to
// completion on the calling thread; it reports whether a timer was armed (executor only, manual-timer mode).
func RunTimer() bool { return false }

func endTimerCallback() {}

// runTimerCallback is the frame the executor pushes for RunTimer.
func runTimerCallback(f func()) bool {
	defer endTimerCallback()
	f()
	return true
}

// FiresChecked returns the number of timer callbacks that have already performed their first
// synchronisation operation, i.e. whose expiry check has begun (executor only).
func FiresChecked() int { return 0 }

// jsonUnmarshal is what the executor runs in place of json.Unmarshal: the same uninterpreted parser, with neither
// UseNumber nor DisallowUnknownFields (Unmarshal cannot apply them).
// jsonEncode is the model of (*json.Encoder).Encode: the marshalled value followed by a newline goes to the
// encoder's writer in one Write.
func jsonEncode(w io.Writer, v interface{}) error {
	b, err := json.Marshal(v)
	if err != nil {
		return err
	}
	line := make([]byte, len(b)+1)
	copy(line, b)
	line[len(b)] = '\n'
	_, err = w.Write(line)
	return err
}

func jsonUnmarshal(data []byte, v interface{}) error {
	obj, ok := jsonParse(data, false, false)
	if !ok {
		return errJSON
	}
	if p, isMap := v.(*map[string]interface{}); isMap {
		*p = obj
	}
	return nil
}
