package sym

import (
	"fmt"
	"go/types"

	"golang.org/x/tools/go/ssa"
)

// Value is one of:
//
//	*Term        scalar (bool / integer of the Go type's width)
//	Ptr          pointer (nil pointer: Obj==0)
//	SliceV       slice header
//	StrV         string
//	*StructV     struct value
//	*ArrayV      array value
//	IfaceV       interface value (nil interface: T==nil)
//	FuncV        function value (nil func: Fn==nil && Builtin==nil)
//	MapV, ChanV  references
//	TupleV       multiple results
//	Poison       result of an unsupported operation; using it is an error
//	*IterV       map/string range iterator
type Value interface{}

type ObjID int32

type Ptr struct {
	Obj  ObjID
	Path string // encoded field/element path inside the object ("" = whole object)
	Idx  *Term  // for pointers to elements of byte objects (OBytes): element index
	// lazily concretised element pointer (only for arrays of sync.Pool): the element index
	// Sym (in [0,SymN)) is appended to Path when the pointer is resolved.
	Sym  *Term
	SymN int
}

type SliceV struct {
	Obj           ObjID
	Base          string // path of the array inside the object (cells objects)
	Off, Len, Cap *Term  // BV64
}

type StrV struct {
	Arr      *ByteArr
	Off, Len *Term
	// Alias != 0: a string made by reinterpreting memory (unsafe pointer cast, unsafe.String): its bytes are
	// whatever the byte object Alias holds when the string is looked at (Arr is nil); see Engine.sres.
	Alias ObjID
}

type StructV struct{ F []Value }
type ArrayV struct{ E []Value }

type IfaceV struct {
	T types.Type
	V Value
}

type FuncV struct {
	Fn   *ssa.Function
	Bind []Value
	Blt  *ssa.Builtin
}

type MapV struct{ Obj ObjID }
type ChanV struct{ Obj ObjID }
type TupleV []Value
type Poison struct{ Why string }

type IterV struct {
	Keys []Value
	Vals []Value
	I    int
	Str  *StrV
}

func pathAppend(p string, i int) string {
	if i < 0 || i > 0xffff {
		panic(&Unsupported{fmt.Sprintf("path index %d", i)})
	}
	return p + string([]byte{byte(i >> 8), byte(i)})
}

func pathDecode(p string) []int {
	out := make([]int, 0, len(p)/2)
	for i := 0; i+1 < len(p); i += 2 {
		out = append(out, int(p[i])<<8|int(p[i+1]))
	}
	return out
}

type OKind uint8

const (
	OCells OKind = iota
	OBytes
	OMap
	OChan
)

// Object is a heap object. Objects are copy-on-write between states (Gen).
type Object struct {
	Gen  int
	Kind OKind
	Typ  types.Type // allocated type (element type for slices' backing arrays)
	V    Value      // OCells: root value
	// OBytes
	Arr  *ByteArr
	Size *Term
	// OMap
	Keys []Value
	Vals []Value
	// OChan
	Cap    int
	Buf    []Value
	Closed bool
	ItemVC [][]int32 // race mode: clock of the sender of each buffered item
	// OBytes: the buffer is in a sync.Pool (Put, not handed out again since)
	InPool bool
	// harness-owned (exempt from the race monitor)
	Harness bool
	Site    string // allocation site (for reports)
}

func (o *Object) clone(gen int) *Object {
	n := *o
	n.Gen = gen
	if o.Kind == OMap {
		n.Keys = append([]Value(nil), o.Keys...)
		n.Vals = append([]Value(nil), o.Vals...)
	}
	if o.Kind == OChan {
		n.Buf = append([]Value(nil), o.Buf...)
	}
	return &n
}

// ---------------------------------------------------------------------------
// type helpers

func bvWidth(t types.Type) uint8 {
	switch u := t.Underlying().(type) {
	case *types.Basic:
		switch u.Kind() {
		case types.Bool, types.UntypedBool:
			return 0
		case types.Int8, types.Uint8:
			return 8
		case types.Int16, types.Uint16:
			return 16
		case types.Int32, types.Uint32, types.UntypedRune:
			return 32
		case types.Int, types.Uint, types.Int64, types.Uint64, types.Uintptr, types.UntypedInt:
			return 64
		}
	}
	return 255
}

func isSigned(t types.Type) bool {
	if b, ok := t.Underlying().(*types.Basic); ok {
		return b.Info()&types.IsInteger != 0 && b.Info()&types.IsUnsigned == 0
	}
	return false
}

func isByteType(t types.Type) bool {
	if b, ok := t.Underlying().(*types.Basic); ok {
		return b.Kind() == types.Uint8 || b.Kind() == types.Int8
	}
	return false
}

func isScalar(t types.Type) bool {
	if b, ok := t.Underlying().(*types.Basic); ok {
		return b.Info()&(types.IsInteger|types.IsBoolean) != 0
	}
	return false
}

func isString(t types.Type) bool {
	if b, ok := t.Underlying().(*types.Basic); ok {
		return b.Info()&types.IsString != 0
	}
	return false
}

func isFloat(t types.Type) bool {
	if b, ok := t.Underlying().(*types.Basic); ok {
		return b.Info()&(types.IsFloat|types.IsComplex) != 0
	}
	return false
}

func deref(t types.Type) types.Type {
	if p, ok := t.Underlying().(*types.Pointer); ok {
		return p.Elem()
	}
	panic(fmt.Sprintf("deref of non-pointer %v", t))
}

func (e *Engine) zero(t types.Type) Value {
	tb := e.tb
	switch u := t.Underlying().(type) {
	case *types.Basic:
		switch {
		case u.Kind() == types.Invalid:
			return Poison{"invalid type (unused range variable)"}
		case u.Info()&types.IsBoolean != 0:
			return tb.False
		case u.Info()&types.IsInteger != 0:
			return tb.Const(bvWidth(t), 0)
		case u.Info()&types.IsString != 0:
			return StrV{Arr: tb.ArrLit(""), Off: tb.Int64(0), Len: tb.Int64(0)}
		case u.Kind() == types.UnsafePointer:
			return Ptr{}
		case u.Kind() == types.UntypedNil:
			return Ptr{}
		case u.Info()&(types.IsFloat|types.IsComplex) != 0:
			return Poison{"float"}
		}
	case *types.Pointer:
		return Ptr{}
	case *types.Slice:
		return SliceV{Off: tb.Int64(0), Len: tb.Int64(0), Cap: tb.Int64(0)}
	case *types.Struct:
		s := &StructV{F: make([]Value, u.NumFields())}
		for i := range s.F {
			s.F[i] = e.zero(u.Field(i).Type())
		}
		return s
	case *types.Array:
		n := int(u.Len())
		if n > 1<<16 {
			panic(&Unsupported{fmt.Sprintf("array of %d elements", n)})
		}
		a := &ArrayV{E: make([]Value, n)}
		if n > 0 {
			z := e.zero(u.Elem())
			for i := range a.E {
				a.E[i] = z
			}
		}
		return a
	case *types.Interface:
		return IfaceV{}
	case *types.Signature:
		return FuncV{}
	case *types.Map:
		return MapV{}
	case *types.Chan:
		return ChanV{}
	case *types.Tuple:
		tv := make(TupleV, u.Len())
		for i := range tv {
			tv[i] = e.zero(u.At(i).Type())
		}
		return tv
	}
	panic(&Unsupported{fmt.Sprintf("zero value of %v", t)})
}

func (s StrV) constString() (string, bool) {
	if !s.Len.IsConst() || !s.Off.IsConst() {
		return "", false
	}
	if s.Arr != nil && s.Arr.kind == baLit {
		o, l := s.Off.K, s.Len.K
		if o+l <= uint64(len(s.Arr.lit)) {
			return s.Arr.lit[o : o+l], true
		}
	}
	return "", false
}

func showValue(v Value) string {
	switch x := v.(type) {
	case nil:
		return "<nil>"
	case *Term:
		return x.String()
	case Ptr:
		if x.Obj == 0 {
			return "nilptr"
		}
		if x.Idx != nil {
			return fmt.Sprintf("&o%d[%v]", x.Obj, x.Idx)
		}
		return fmt.Sprintf("&o%d%v", x.Obj, pathDecode(x.Path))
	case SliceV:
		return fmt.Sprintf("slice(o%d,%v,%v,%v)", x.Obj, x.Off, x.Len, x.Cap)
	case StrV:
		if s, ok := x.constString(); ok {
			return fmt.Sprintf("%q", s)
		}
		return fmt.Sprintf("str(len=%v)", x.Len)
	case *StructV:
		s := "{"
		for i, f := range x.F {
			if i > 0 {
				s += ", "
			}
			s += showValue(f)
		}
		return s + "}"
	case *ArrayV:
		return fmt.Sprintf("array[%d]", len(x.E))
	case IfaceV:
		if x.T == nil {
			return "nil-iface"
		}
		return fmt.Sprintf("iface(%v:%s)", x.T, showValue(x.V))
	case FuncV:
		if x.Fn != nil {
			return "func " + x.Fn.String()
		}
		if x.Blt != nil {
			return "builtin " + x.Blt.Name()
		}
		return "nil-func"
	case MapV:
		return fmt.Sprintf("map(o%d)", x.Obj)
	case ChanV:
		return fmt.Sprintf("chan(o%d)", x.Obj)
	case TupleV:
		s := "("
		for i, f := range x {
			if i > 0 {
				s += ", "
			}
			s += showValue(f)
		}
		return s + ")"
	case Poison:
		return "poison(" + x.Why + ")"
	}
	return fmt.Sprintf("%T", v)
}
