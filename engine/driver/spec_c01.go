package driver

import "strings"

func writerJobs(scribble int64) (quick, thorough []*Job) {
	b := "writers x writes per writer, queue size q (0 = synchronous channel), blocking/non-blocking queue mode, one entry point per writer out of Write1/Writev/CtxWrite1/CtxWritev/Writer().Write/Writev with one element/CtxWritev with one element/Writev with an empty element, payloads of 1-3 bytes (first byte a concrete tag, the rest symbolic); ALL interleavings of writers, executor start-up and sender at synchronisation-operation granularity (sound for race-free code; races are C12's subject)"
	add := func(list *[]*Job, args ...int64) {
		*list = append(*list, &Job{Pkg: "", Func: "ZZ_C01_Writers", Args: append(args, scribble), Bounds: b})
	}
	// (q, until, nw, writes of writer 0, writes of the other writers, entries, sizes)
	for _, q := range []int64{0, 1, 2} {
		for _, until := range []int64{0, 1} {
			if q == 0 && until == 1 {
				continue
			}
			add(&quick, q, until, 2, 1, 1, 1*8+0, 0) // Write1 + Writev
			add(&quick, q, until, 2, 1, 1, 3*8+2, 1) // CtxWrite1 + CtxWritev
			add(&quick, q, until, 1, 2, 0, 4, 2)     // one writer, two writes through Writer()
		}
	}
	add(&quick, 1, 1, 2, 1, 1, 4*8+1, 100) // with an empty payload
	add(&quick, 1, 1, 2, 2, 1, 1*8+0, 0)   // 2 + 1 writes
	add(&quick, 2, 0, 3, 1, 1, 2*64+1*8+0, 1)
	for _, q := range []int64{1, 2, 3} {
		for _, until := range []int64{0, 1} {
			add(&thorough, q, until, 2, 2, 1, 1*8+0, 0)
			add(&thorough, q, until, 3, 1, 1, 2*64+1*8+0, 1)
			add(&thorough, q, until, 2, 2, 1, 3*8+4, 2)
			add(&thorough, q, until, 1, 3, 0, 2, 1)
		}
	}
	add(&thorough, 0, 0, 3, 1, 1, 2*64+1*8+0, 0)
	add(&thorough, 0, 0, 2, 2, 1, 3*8+4, 1)
	for e := int64(0); e < 64; e++ {
		add(&thorough, 1, 1, 2, 1, 1, e, 0)
	}
	// the single-element / empty-element vector entry points and one writer with three writes (pool reuse)
	add(&quick, 2, 1, 2, 1, 1, 5*8+6, 0)
	add(&quick, 1, 0, 2, 1, 1, 7*8+5, 1)
	add(&quick, 2, 1, 1, 3, 0, 0, 0)
	// transport calls as scheduling points (until 2/3)
	add(&quick, 1, 3, 2, 1, 1, 1*8+0, 0)
	add(&quick, 2, 2, 2, 1, 1, 3*8+4, 1)
	add(&quick, 0, 2, 2, 1, 1, 2*8+1, 2)
	add(&thorough, 2, 3, 2, 2, 1, 1*8+0, 0)
	add(&thorough, 1, 2, 3, 1, 1, 2*64+1*8+0, 1)
	thorough = append(thorough, &Job{Pkg: "", Func: "ZZ_C01_Writers", Args: []int64{1, 1, 2, 2, 2, 1*8 + 0, 0, scribble}, Bounds: b, Limit: 3000e9})
	// context-taking entry points with a context that ends before / during the call, on a queue with room
	bc := "one writer, two calls through CtxWrite1 / CtxWritev with a context cancelled before the call or by a concurrent goroutine; queue 0..2, both queue modes"
	for _, q := range []int64{0, 1, 2} {
		for _, until := range []int64{0, 1} {
			for _, e := range []int64{2, 3, 6} {
				for _, mode := range []int64{0, 1} {
					if q == 0 && (until == 1 || e == 6) {
						continue
					}
					quick = append(quick, &Job{Pkg: "", Func: "ZZ_C01_Ctx", Args: []int64{q, until, e, mode}, Bounds: bc})
				}
			}
		}
	}
	bv := "a two-part vector whose total is 65536 / 65537 bytes on a non-blocking queue with exactly one free slot (manual executor), Writev and CtxWritev: accepted whole or refused without contributing a byte"
	for _, c := range [][]int64{{1, 1, 0}, {2, 1, 1}, {2, 3, 2}, {1, 1, 3}, {1, 3, 1}} {
		quick = append(quick, &Job{Pkg: "", Func: "ZZ_C01_BigVector", Args: c, Bounds: bv})
	}
	bs := "single writer, payload sizes {0,1,1023,1024,1025,2048,65536,65537} with symbolic contents through each entry point, followed by a 2-byte write through the next entry point"
	for e := int64(0); e < 8; e++ {
		for si := int64(0); si < 8; si++ {
			l := &thorough
			if (e+si)%4 == 0 || si == 3 || si == 7 {
				l = &quick
			}
			q := int64(2)
			if (e+si)%3 == 0 {
				q = 0
			}
			*l = append(*l, &Job{Pkg: "", Func: "ZZ_C01_Sizes", Args: []int64{q, 1, e, si, scribble}, Bounds: bs})
		}
	}
	return
}

// preciseJobs: the same harness with the precise sync.Pool model (a Get may return any buffer that was Put):
// catches recycling bugs that hand one buffer to two queued packets.
func preciseJobs(scribble int64) (quick, thorough []*Job) {
	b := "one or two writers, 3-4 writes, precise sync.Pool model (real reuse of recycled buffers, nondeterministic hand-out)"
	quick = append(quick, &Job{Pkg: "", Func: "ZZ_C01_Writers", Args: []int64{2, 1, 1, 3, 0, 0, 0, scribble}, Bounds: b, PoolPrecise: true})
	quick = append(quick, &Job{Pkg: "", Func: "ZZ_C01_Writers", Args: []int64{3, 0, 1, 3, 0, 4, 1, scribble}, Bounds: b, PoolPrecise: true})
	thorough = append(thorough, &Job{Pkg: "", Func: "ZZ_C01_Writers", Args: []int64{2, 1, 2, 2, 1, 1*8 + 0, 0, scribble}, Bounds: b, PoolPrecise: true})
	br := "sequential (manual executor): `first` payloads sent and recycled in one batch, then `second` payloads accepted with the precise pool model, callers scribble"
	for _, c := range [][]int64{{4, 2, 2, 0}, {4, 2, 2, 1}, {6, 3, 2, 2}, {2, 2, 1, 4}} {
		quick = append(quick, &Job{Pkg: "", Func: "ZZ_C10_Recycle", Args: c, Bounds: br, PoolPrecise: true})
	}
	// backlogs larger than one batch (q/2+1)
	for _, c := range [][]int64{{4, 4, 2, 0}, {3, 3, 2, 1}} {
		quick = append(quick, &Job{Pkg: "", Func: "ZZ_C10_Recycle", Args: c, Bounds: br, PoolPrecise: true})
	}
	bf := "sequential (manual executor), non-blocking queue filled, one call refused (queue full, optionally with an ended context) through each entry point incl. ReadFrom, sender drains and recycles, two more payloads; precise pool model"
	for _, c := range [][]int64{{2, 8, 0}, {2, 9, 0}, {2, 0, 0}, {2, 1, 0}, {3, 3, 1}, {2, 2, 1}, {2, 4, 0}, {3, 6, 0}} {
		quick = append(quick, &Job{Pkg: "", Func: "ZZ_C10_FailThenRecycle", Args: c, Bounds: bf, PoolPrecise: true})
	}
	brf := "Channel.ReadFrom streaming 2-3 chunks (one pooled buffer each) while a second writer uses Write1 and scribbles; pooled buffers havocked on Put; ALL interleavings"
	for _, c := range [][]int64{{2, 1, 2, 1}, {1, 1, 2, 0}, {2, 0, 2, 1}, {0, 0, 2, 1}, {1, 0, 2, 1}, {2, 1, 2, 3}, {1, 1, 1, 3}} {
		quick = append(quick, &Job{Pkg: "", Func: "ZZ_C10_ReadFrom", Args: c, Bounds: brf})
	}
	thorough = append(thorough, &Job{Pkg: "", Func: "ZZ_C10_ReadFrom", Args: []int64{3, 1, 3, 1}, Bounds: brf})
	for _, c := range [][]int64{{2, 0}, {2, 2}, {2, 4}, {2, 1}, {2, 5}, {2, 8}} {
		quick = append(quick, &Job{Pkg: "", Func: "ZZ_C10_EmptyWrite", Args: c, PoolPrecise: true, Bounds: "an empty payload that is a view of a caller-owned 1024-capacity scratch buffer through each entry point, the sender recycles, a second payload follows while the caller keeps using its buffer; precise pool model"})
	}
	thorough = append(thorough, &Job{Pkg: "", Func: "ZZ_C10_Recycle", Args: []int64{6, 3, 3, 5}, Bounds: br, PoolPrecise: true})
	return
}

func labelFilter(prefixes ...string) func(string) bool {
	return func(l string) bool {
		for _, p := range prefixes {
			if strings.HasPrefix(l, p) {
				return true
			}
		}
		// engine-level findings always count
		return l == "deadlock" || l == "livelock" || l == "hang" || strings.HasPrefix(l, "uncaught-panic") || l == "fatal-unlock" || l == "no-progress-loop"
	}
}

func init() {
	q0, t0 := writerJobs(0)
	q1, t1 := writerJobs(1)
	pq, pt := preciseJobs(1)
	q1 = append(q1, pq...)
	t1 = append(t1, pt...)
	concAssume := append([]string{
		"interleaving at the granularity of synchronisation operations (sync/atomic, channel operations, select, mutexes, context cancellation, time.Sleep, mock-transport yield) - complete for data-race-free executions; race freedom is decided separately (C12)",
		"sync.Pool modelled as empty on Get; Put replaces the buffer contents by arbitrary bytes",
		"context.Background/WithCancel modelled in Go (vrt) with atomic cancellation of a subtree",
	}, commonAssumptions...)
	Specs["C01"] = &Spec{
		Jobs: jobsBy(q0, t0), Labels: labelFilter("c01-"),
		MustReach: []string{"c01-quiescent", "c01-sizes-done", "c01-queue-full", "c01-ctx-call-failed", "c01-ctx-call-accepted"},
		Bounds: map[string]string{
			"quick":    "2 writers x 1 write, 1 writer x 2 writes, 2+1 writes and 3 writers x 1 write, queue sizes 0 (synchronous), 1, 2, both queue modes, three entry-point combinations, one empty payload; single-writer size sweep over 28 of 64 (entry point, size) combinations incl. 65537 bytes through every entry point",
			"thorough": "2+1 writes and 3 writers x 1 write for queue sizes 1..3 in both modes, 1 writer x 3 writes, 2 writers x 2 writes (queue 1, up to 50 min), all 64 entry-point pairs, full size sweep",
		},
		Outside:     "more than 3 writers / 4 writes; failing transports (C07)",
		Assumptions: concAssume,
	}
	Specs["C02"] = &Spec{
		Jobs: jobsBy(q0, t0), Labels: labelFilter("c02-"),
		MustReach:   []string{"c01-quiescent"},
		Bounds:      Specs["C01"].Bounds,
		Outside:     "executors that never run their actions (excluded by the statement); more than 3 writers / 4 writes",
		Assumptions: concAssume,
	}
	Specs["C10"] = &Spec{
		Jobs: jobsBy(q1, t1), Labels: labelFilter("c10-"),
		MustReach:   []string{"c01-quiescent", "c01-sizes-done"},
		Bounds:      Specs["C01"].Bounds,
		Outside:     "callers mutating a buffer during the call (not promised); real sync.Pool reuse is replaced by the havoc model justified in DESIGN.md C10",
		Assumptions: concAssume,
	}
}
