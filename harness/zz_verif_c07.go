package netty

import (
	"context"
	"errors"
	"io"

	"github.com/go-netty/go-netty/internal/vrt"
	"github.com/go-netty/go-netty/utils"
)

var zzErrBomb = errors.New("zz: handler failure")

// zzPanicValue: 0 error, 1 string, 2 runtime error (nil map write), 3 timeout net.Error, 4 non-timeout net.Error
func zzThrow(kind int) {
	switch kind {
	case 0:
		panic(zzErrBomb)
	case 1:
		panic("zz: string panic")
	case 2:
		var m map[int]int
		m[1] = 1
	case 3:
		panic(&zzNetErr{timeout: true})
	case 4:
		panic(&zzNetErr{timeout: false})
	}
}

// zzBomb panics when it sees the event kind `on` (zzK*), otherwise forwards. It implements all handler interfaces
// except ExceptionHandler.
type zzBomb struct {
	on   int
	pval int
	hits int
	// what to do inside HandleRead before anything else: 1 ctx.Write, 2 ctx.Trigger (entry points from inside a handler)
	inner int
	reads bool // consume the inbound byte (only the first handler does)
	closeFirst bool // close the channel, then panic, in the same delivery
	ctxClose   func()
	saved      HandlerContext
}

func (b *zzBomb) maybe(kind int) {
	if b.on == kind && b.hits == 0 {
		b.hits++
		if b.closeFirst && b.ctxClose != nil {
			b.ctxClose()
		}
		zzThrow(b.pval)
	}
}
func (b *zzBomb) HandleActive(ctx ActiveContext) {
	b.saved = ctx // applications keep the handler context for later use from their own goroutines
	b.maybe(zzKActive)
	ctx.HandleActive()
}
func (b *zzBomb) HandleRead(ctx InboundContext, m Message) {
	if r, ok := m.(io.Reader); ok && b.reads {
		var buf [1]byte
		utils.AssertLength(r.Read(buf[:]))
	}
	switch b.inner {
	case 1:
		ctx.Write([]byte{0x31})
	case 2:
		ctx.Trigger(9)
	}
	b.maybe(zzKRead)
	ctx.HandleRead(m)
}
func (b *zzBomb) HandleWrite(ctx OutboundContext, m Message) { b.maybe(zzKWrite); ctx.HandleWrite(m) }
func (b *zzBomb) HandleEvent(ctx EventContext, ev Event)    { b.maybe(zzKEvent); ctx.HandleEvent(ev) }

// zzExc is the exception handler under test: mode 1 forwards, mode 2 swallows.
type zzExc struct {
	mode int
	seen []Exception
}

func (x *zzExc) HandleException(ctx ExceptionContext, ex Exception) {
	if len(x.seen) < 4 {
		x.seen = append(x.seen, ex)
	}
	if x.mode == 1 {
		ctx.HandleException(ex)
	}
}

type zzInact struct {
	n  int
	ex Exception
}

func (i *zzInact) HandleInactive(ctx InactiveContext, ex Exception) {
	i.n++
	i.ex = ex
	ctx.HandleInactive(ex)
}

// ZZ_C07_Panic: a handler at position `pos` (0..1, among two bombs) panics with value kind `pval` on event kind
// `on`; the event arrives through `entry`:
//
//	0 read loop (active/read events)    1 Channel.Write    2 Channel.Trigger
//	3 ctx.Write from inside a read handler    4 ctx.Trigger from inside a read handler
//	5 ctx.Write / 6 ctx.Trigger through a handler context the application kept, from a goroutine of its own
//
// exmode: 0 no exception handler, 1 forwarding handler, 2 swallowing handler (both behind the failing handlers),
// 3 forwarding, 4 swallowing handler in front of them.
func ZZ_C07_Panic(entry, on, pval, exmode, pos, q int) {
	tr := newZZTransport()
	tr.readData = []byte{0x51}
	pl := NewPipeline()
	bombs := [2]*zzBomb{{on: -1, reads: true}, {on: -1}}
	bombs[pos].on, bombs[pos].pval = on, pval
	if entry == 3 {
		bombs[1].inner = 1
	}
	if entry == 4 {
		bombs[0].inner = 2 // Trigger travels towards the tail: fired from the first handler, caught by the second
	}
	front := exmode >= 3 // the exception handler sits in front of the failing handlers (exceptions travel from the head)
	if front {
		exmode -= 2
	}
	exc := &zzExc{mode: exmode}
	inact := &zzInact{}
	if front {
		pl.AddLast(exc)
	}
	pl.AddLast(bombs[0], bombs[1])
	if exmode != 0 && !front {
		pl.AddLast(exc)
	}
	pl.AddLast(inact)
	ch := newChannelWith(vrtBackground(), pl, tr, AsyncExecutor(), 1, q, true).(*channel)
	vrt.Facet("entry", entry)
	vrt.Facet("pval", pval)
	pl.ServeChannel(ch)
	switch entry {
	case 1:
		err := ch.Write([]byte{0x41})
		vrt.Assert(err == nil || !ch.IsActive(), "c07-write-error-only-when-closed")
	case 2:
		ch.Trigger(7)
	case 5, 6:
		// the application uses a handler context it kept, from a goroutine of its own (no framework frame above it)
		vrt.Quiesce()
		var escaped interface{}
		if entry == 5 {
			escaped = vrt.Panics(func() { bombs[1].saved.Write([]byte{0x41}) }) // travels towards the head through bombs[0]
		} else {
			escaped = vrt.Panics(func() { bombs[0].saved.Trigger(7) }) // travels towards the tail through bombs[1]
		}
		vrt.Assert(escaped == nil, "c07-panic-does-not-escape-into-the-caller")
	}
	// let the read loop deliver its byte and then block in Read (or finish, if the channel was closed)
	dead := vrt.Quiesce()
	fired := bombs[pos].hits == 1
	if !fired {
		vrt.Reach("c07-bomb-not-reached")
		return
	}
	vrt.Reach("c07-bomb-fired")
	consumed := exmode == 2
	closes := !consumed || pval == 4 && (entry <= 2) // invokeMethod closes on non-timeout net.Error even if a handler consumed it
	if exmode != 0 {
		vrt.Assert(len(exc.seen) >= 1, "c07-exception-delivered")
		if pval == 0 {
			vrt.Assert(exc.seen[0] == zzErrBomb, "c07-exception-is-the-panic-value")
		}
		if pval == 2 {
			vrt.Assert(exc.seen[0] != nil, "c07-runtime-error-delivered-as-exception")
		}
	}
	if closes {
		vrt.Assert(!dead, "c07-goroutines-finish-after-close")
		vrt.Assert(tr.closes == 1 && !ch.IsActive(), "c07-unconsumed-exception-closes-channel")
		vrt.Assert(inact.n == 1, "c07-inactive-once")
		if pval == 0 {
			vrt.Assert(inact.ex == zzErrBomb, "c07-closed-with-the-exception")
		}
		vrt.Reach("c07-closed")
	} else {
		vrt.Assert(exmode == 0 || len(exc.seen) == 1, "c07-exception-delivered-once")
		vrt.Assert(tr.closes == 0 && ch.IsActive() && inact.n == 0, "c07-consumed-exception-keeps-channel-open")
		// the channel remains usable
		before := len(tr.log)
		vrt.Assert(ch.Write([]byte{0x42}) == nil, "c07-channel-usable-after-consumed-exception")
		vrt.Quiesce()
		vrt.Assert(len(tr.log) == before+1 && tr.log[before] == 0x42, "c07-write-after-consumed-exception-is-sent")
		vrt.Reach("c07-open")
	}
}

// ZZ_C07_TransportFault: the k-th transport Write/Writev or Flush fails in the background sender (queued channel)
// or in the caller (synchronous channel); a failing Read in the read loop. The channel is closed with that error,
// no goroutine dies, ownership is released (no closer deadlock).
//
//	what: 0 Write/Writev, 1 Flush, 2 Read, 3 Flush under Channel.Write; plus 10 x the class of the error a failing
//	write reports: 0 non-timeout net.Error, 1 a plain error, 2 a timeout net.Error (the sender closes the channel
//	whatever the class: a write that failed has lost bytes)
func ZZ_C07_TransportFault(q, what, k, exmode int) {
	tr := newZZTransport()
	var fault error = &zzNetErr{timeout: false}
	switch what / 10 {
	case 1:
		fault = zzErrBomb
	case 2:
		fault = &zzNetErr{timeout: true}
	}
	what %= 10
	tr.writeErr = fault
	switch what {
	case 0:
		tr.failWriteAt = k
	case 1, 3:
		tr.failFlushAt = k
	case 2:
		tr.readErr = fault
	}
	pl := NewPipeline()
	exc := &zzExc{mode: exmode}
	inact := &zzInact{}
	pl.AddLast(&zzBomb{on: -1, reads: true}) // a codec-like handler that reads from the transport
	if exmode != 0 {
		pl.AddLast(exc)
	}
	pl.AddLast(inact)
	ch := newChannelWith(vrtBackground(), pl, tr, AsyncExecutor(), 1, q, true).(*channel)
	pl.ServeChannel(ch)
	var errs [3]error
	if what == 3 {
		// messages through the pipeline (Channel.Write -> head handler): the flush failure surfaces inside the head
		// handler as (n written, error) and must be raised as an exception like any other transport failure
		for i := 0; i < 3 && ch.IsActive(); i++ {
			i := i
			pv := vrt.Panics(func() { ch.Write([]byte{byte(0x61 + i)}) })
			vrt.Assert(pv == nil, "c07-panic-does-not-escape-into-the-caller")
		}
	} else if what != 2 {
		for i := 0; i < 3; i++ {
			i := i
			pv := vrt.Panics(func() { _, errs[i] = ch.Write1([]byte{byte(0x61 + i)}) })
			vrt.Assert(pv == nil, "c07-low-level-write-does-not-panic")
		}
	}
	dead := vrt.Quiesce()
	fired := what == 2 || (what == 0 && tr.writes >= k) || ((what == 1 || what == 3) && tr.flushes >= k)
	if !fired {
		// the schedule batched the writes so that the k-th transport call never happened
		vrt.Reach("c07-fault-not-reached")
		return
	}
	if q > 0 || what == 2 || what == 3 {
		// background sender / read loop failure: the channel is closed with the fault
		vrt.Assert(!dead, "c07-no-thread-left-blocked")
		vrt.Assert(tr.closes == 1 && !ch.IsActive(), "c07-transport-fault-closes-channel")
		vrt.Assert(inact.n == 1, "c07-inactive-once")
		vrt.Assert(errors.Is(inact.ex, fault) || inact.ex == fault, "c07-closed-with-the-transport-error")
		vrt.Assert(q == 0 || ch.running == idle, "c07-sender-ownership-released")
		vrt.Reach("c07-fault-closed")
	} else {
		// synchronous channel: the failing call reports the error to its caller
		vrt.Assert(errs[k-1] != nil, "c07-sync-write-reports-transport-error")
		vrt.Reach("c07-fault-reported")
	}
}

// ZZ_C07_CloseThenPanic: a handler closes the channel and then panics in the same delivery (or the channel is closed
// by another goroutine while the delivery is in flight): the panic still must not escape into the caller of
// Channel.Write / Channel.Trigger nor kill the read goroutine.
func ZZ_C07_CloseThenPanic(entry, pval, q, concurrent int) {
	tr := newZZTransport()
	tr.readData = []byte{0x51}
	pl := NewPipeline()
	on := zzKWrite
	if entry == 2 {
		on = zzKEvent
	}
	if entry == 0 {
		on = zzKRead
	}
	bomb := &zzBomb{on: on, pval: pval, reads: true, closeFirst: concurrent == 0}
	inact := &zzInact{}
	pl.AddLast(bomb, inact)
	ch := newChannelWith(vrtBackground(), pl, tr, AsyncExecutor(), 1, q, true).(*channel)
	bomb.ctxClose = func() { ch.Close(zzErrUserClose) }
	pl.ServeChannel(ch)
	if concurrent != 0 {
		vrt.Go("closer", func() { ch.Close(zzErrUserClose) })
	}
	var escaped interface{}
	switch entry {
	case 1:
		escaped = vrt.Panics(func() { ch.Write([]byte{0x41}) })
	case 2:
		escaped = vrt.Panics(func() { ch.Trigger(7) })
	}
	vrt.Assert(escaped == nil, "c07-panic-does-not-escape-into-the-caller")
	dead := vrt.Quiesce()
	vrt.Assert(!dead, "c07-goroutines-finish-after-close")
	vrt.Assert(tr.closes == 1 && inact.n == 1, "c07-closed-exactly-once")
	vrt.Reach("c07-close-then-panic-done")
}

// ZZ_C07_PanicAfterParentCancel: the channel's parent context has ended (Shutdown has begun, or the user's context
// was cancelled) but nobody has closed the channel yet - it is still open - when a handler panics: the exception is
// delivered like any other, an unconsumed one closes the channel with that exception, a consumed one leaves it
// open. entry: 0 the read handler cancels the parent itself and then panics in the same delivery (read loop),
// 1 Channel.Write after the cancellation, 2 Channel.Trigger after the cancellation.
func ZZ_C07_PanicAfterParentCancel(entry, exmode, q int) {
	tr := newZZTransport()
	if entry == 0 {
		tr.readData = []byte{0x51}
	}
	pl := NewPipeline()
	on := zzKWrite
	if entry == 2 {
		on = zzKEvent
	}
	if entry == 0 {
		on = zzKRead
	}
	parent, cancelParent := context.WithCancel(vrtBackground())
	bomb := &zzBomb{on: on, pval: 0, reads: true, closeFirst: entry == 0, ctxClose: cancelParent}
	exc := &zzExc{mode: exmode}
	inact := &zzInact{}
	pl.AddLast(bomb)
	if exmode != 0 {
		pl.AddLast(exc)
	}
	pl.AddLast(inact)
	ch := newChannelWith(parent, pl, tr, AsyncExecutor(), 1, q, true).(*channel)
	pl.ServeChannel(ch)
	if entry != 0 {
		vrt.Quiesce() // the read loop is parked in the transport read and does not see the context end
		cancelParent()
		vrt.Assert(ch.IsActive(), "c07-channel-still-open-after-parent-cancel")
	}
	var escaped interface{}
	switch entry {
	case 1:
		escaped = vrt.Panics(func() { ch.Write([]byte{0x41}) })
	case 2:
		escaped = vrt.Panics(func() { ch.Trigger(7) })
	}
	vrt.Assert(escaped == nil, "c07-panic-does-not-escape-into-the-caller")
	dead := vrt.Quiesce()
	vrt.Assert(bomb.hits == 1, "c07-bomb-fired-after-parent-cancel")
	if exmode != 0 {
		vrt.Assert(len(exc.seen) >= 1 && exc.seen[0] == zzErrBomb, "c07-exception-delivered")
	}
	if exmode != 2 {
		vrt.Assert(!dead, "c07-goroutines-finish-after-close")
		vrt.Assert(tr.closes == 1 && !ch.IsActive() && inact.n == 1, "c07-unconsumed-exception-closes-channel")
		vrt.Assert(inact.ex == zzErrBomb, "c07-closed-with-the-exception")
	}
	vrt.Reach("c07-parent-cancel-done")
}
