package sym

import (
	"fmt"
	"go/token"
	"go/types"

	"golang.org/x/tools/go/ssa"
)

// toIndex converts an integer Value of Go type t to a BV64 term (sign- or zero-extended).
func (e *Engine) toIndex(v Value, t types.Type) *Term {
	x := v.(*Term)
	if x.W == 64 {
		return x
	}
	if isSigned(t) {
		return e.tb.SExt(x, 64)
	}
	return e.tb.ZExt(x, 64)
}

func isSyncPool(ptrType types.Type) bool {
	if pt, ok := ptrType.Underlying().(*types.Pointer); ok {
		if n, ok := pt.Elem().(*types.Named); ok {
			return n.Obj().Name() == "Pool" && n.Obj().Pkg() != nil && n.Obj().Pkg().Path() == "sync"
		}
	}
	return false
}

// resolvePtr concretises a lazily symbolic element pointer (forking over the feasible indices).
func (e *Engine) resolvePtr(st *State, p Ptr) Ptr {
	if p.Sym == nil {
		return p
	}
	i := e.concretize(st, p.Sym, "lazy element pointer")
	return Ptr{Obj: p.Obj, Path: pathAppend(p.Path, int(i))}
}

func (e *Engine) load(st *State, th *Thread, p Ptr, pos token.Pos) Value {
	p = e.resolvePtr(st, p)
	if p.Obj == 0 {
		e.raiseRuntime(st, th, "invalid memory address or nil pointer dereference")
	}
	o := st.obj(p.Obj)
	if e.Cfg.Race && st.Multi {
		e.hbAccess(st, th, o, p, false, pos)
	}
	switch o.Kind {
	case OBytes:
		if p.Idx != nil {
			return e.tb.ArrRead(o.Arr, p.Idx)
		}
		if p.Path != "" {
			panic("path into bytes object")
		}
		n := int(e.constOf(o.Size, "byte array size"))
		a := &ArrayV{E: make([]Value, n)}
		for i := 0; i < n; i++ {
			a.E[i] = e.tb.ArrRead(o.Arr, e.tb.Int64(int64(i)))
		}
		return a
	case OCells:
		return loadPath(o.V, p.Path)
	}
	panic(fmt.Sprintf("load from object kind %d", o.Kind))
}

func (e *Engine) store(st *State, th *Thread, p Ptr, v Value, pos token.Pos) {
	p = e.resolvePtr(st, p)
	if p.Obj == 0 {
		e.raiseRuntime(st, th, "invalid memory address or nil pointer dereference")
	}
	o := st.wobj(p.Obj)
	if e.Cfg.Race && st.Multi {
		e.hbAccess(st, th, o, p, true, pos)
	}
	switch o.Kind {
	case OBytes:
		if p.Idx != nil {
			o.Arr = e.tb.ArrStore(o.Arr, p.Idx, v.(*Term))
			return
		}
		a := v.(*ArrayV)
		arr := e.tb.ArrZero()
		for i, el := range a.E {
			t := el.(*Term)
			if !(t.IsConst() && t.K == 0) {
				arr = e.tb.ArrStore(arr, e.tb.Int64(int64(i)), t)
			}
		}
		o.Arr = arr
		return
	case OCells:
		o.V = storePath(o.V, p.Path, v)
		return
	}
	panic(fmt.Sprintf("store to object kind %d", o.Kind))
}

func (e *Engine) constOf(t *Term, what string) uint64 {
	if !t.IsConst() {
		panic(&Unsupported{"symbolic " + what})
	}
	return t.K
}

func (e *Engine) unop(st *State, th *Thread, fr *Frame, in *ssa.UnOp) {
	tb := e.tb
	x := e.get(st, fr, in.X)
	switch in.Op {
	case token.MUL:
		v := e.load(st, th, x.(Ptr), in.Pos())
		v = e.pun(st, v, in.Type())
		e.setReg(st, th, in, v)
	case token.NOT:
		e.setReg(st, th, in, tb.Not(x.(*Term)))
	case token.SUB:
		if _, ok := x.(Poison); ok {
			e.setReg(st, th, in, x)
		} else {
			e.setReg(st, th, in, tb.Neg(x.(*Term)))
		}
	case token.XOR:
		e.setReg(st, th, in, tb.BNot(x.(*Term)))
	case token.ARROW:
		e.execRecv(st, th, fr, in, x.(ChanV))
		return
	default:
		panic(&Unsupported{"unop " + in.Op.String()})
	}
	e.advance(st, th)
}

func (e *Engine) execIndex(st *State, th *Thread, fr *Frame, in *ssa.Index) {
	x := e.get(st, fr, in.X)
	idx := e.toIndex(e.get(st, fr, in.Index), in.Index.Type())
	switch a := x.(type) {
	case *ArrayV:
		if !e.decide(st, e.tb.ULt(idx, e.tb.Int64(int64(len(a.E))))) {
			e.raiseRuntime(st, th, "index out of range")
		}
		i := e.concretize(st, idx, "array index")
		e.setReg(st, th, in, a.E[i])
	case StrV:
		if !e.decide(st, e.tb.ULt(idx, a.Len)) {
			e.raiseRuntime(st, th, "index out of range")
		}
		a = e.sres(st, a)
		e.setReg(st, th, in, e.tb.ArrRead(a.Arr, e.tb.Add(a.Off, idx)))
	default:
		panic(&Unsupported{fmt.Sprintf("Index on %T", x)})
	}
	e.advance(st, th)
}

func (e *Engine) execLookup(st *State, th *Thread, fr *Frame, in *ssa.Lookup) {
	x := e.get(st, fr, in.X)
	switch a := x.(type) {
	case StrV:
		idx := e.toIndex(e.get(st, fr, in.Index), in.Index.Type())
		if !e.decide(st, e.tb.ULt(idx, a.Len)) {
			e.raiseRuntime(st, th, "index out of range")
		}
		a = e.sres(st, a)
		e.setReg(st, th, in, e.tb.ArrRead(a.Arr, e.tb.Add(a.Off, idx)))
	case MapV:
		k := e.get(st, fr, in.Index)
		v, ok := e.mapLookup(st, th, a, k)
		if !ok {
			v = e.zero(in.X.Type().Underlying().(*types.Map).Elem())
		}
		if in.CommaOk {
			e.setReg(st, th, in, TupleV{v, e.tb.Bool(ok)})
		} else {
			e.setReg(st, th, in, v)
		}
	default:
		panic(&Unsupported{fmt.Sprintf("Lookup on %T", x)})
	}
	e.advance(st, th)
}

func (e *Engine) execIndexAddr(st *State, th *Thread, fr *Frame, in *ssa.IndexAddr) {
	tb := e.tb
	x := e.get(st, fr, in.X)
	idx := e.toIndex(e.get(st, fr, in.Index), in.Index.Type())
	switch a := x.(type) {
	case SliceV:
		if !e.decide(st, tb.ULt(idx, a.Len)) {
			e.raiseRuntime(st, th, "index out of range")
		}
		o := st.obj(a.Obj)
		if o.Kind == OBytes {
			e.setReg(st, th, in, Ptr{Obj: a.Obj, Idx: tb.Add(a.Off, idx)})
		} else {
			full := tb.Add(a.Off, idx)
			if !full.IsConst() && e.PoolPrecise && isSyncPool(in.Type()) {
				// lazily concretised pointer into an array of sync.Pool (resolved by the pool model)
				e.setReg(st, th, in, Ptr{Obj: a.Obj, Path: a.Base, Sym: full, SymN: len(loadPath(o.V, a.Base).(*ArrayV).E)})
			} else {
				i := e.concretize(st, full, "slice index")
				e.setReg(st, th, in, Ptr{Obj: a.Obj, Path: pathAppend(a.Base, int(i))})
			}
		}
	case Ptr:
		if a.Obj == 0 {
			e.raiseRuntime(st, th, "invalid memory address or nil pointer dereference")
		}
		at := deref(in.X.Type()).Underlying().(*types.Array)
		if !e.decide(st, tb.ULt(idx, tb.Int64(at.Len()))) {
			e.raiseRuntime(st, th, "index out of range")
		}
		o := st.obj(a.Obj)
		if o.Kind == OBytes {
			e.setReg(st, th, in, Ptr{Obj: a.Obj, Idx: idx})
		} else {
			i := e.concretize(st, idx, "array index")
			e.setReg(st, th, in, Ptr{Obj: a.Obj, Path: pathAppend(a.Path, int(i))})
		}
	default:
		panic(&Unsupported{fmt.Sprintf("IndexAddr on %T", x)})
	}
	e.advance(st, th)
}

func (e *Engine) execSlice(st *State, th *Thread, fr *Frame, in *ssa.Slice) {
	tb := e.tb
	x := e.get(st, fr, in.X)
	var lo, hi, mx *Term
	if in.Low != nil {
		lo = e.toIndex(e.get(st, fr, in.Low), in.Low.Type())
	} else {
		lo = tb.Int64(0)
	}
	if in.High != nil {
		hi = e.toIndex(e.get(st, fr, in.High), in.High.Type())
	}
	if in.Max != nil {
		mx = e.toIndex(e.get(st, fr, in.Max), in.Max.Type())
	}
	check := func(lo, hi, mx, cp *Term) {
		// 0 <= lo <= hi <= mx <= cap   (unsigned comparisons catch negatives)
		c := tb.And(tb.ULe(lo, hi), tb.And(tb.ULe(hi, mx), tb.ULe(mx, cp)))
		if !e.decide(st, c) {
			e.raiseRuntime(st, th, "slice bounds out of range")
		}
	}
	switch a := x.(type) {
	case StrV:
		if hi == nil {
			hi = a.Len
		}
		check(lo, hi, a.Len, a.Len)
		e.setReg(st, th, in, StrV{Arr: a.Arr, Off: tb.Add(a.Off, lo), Len: tb.Sub(hi, lo), Alias: a.Alias})
	case SliceV:
		if hi == nil {
			hi = a.Len
		}
		if mx == nil {
			mx = a.Cap
		}
		check(lo, hi, mx, a.Cap)
		e.setReg(st, th, in, SliceV{Obj: a.Obj, Base: a.Base, Off: tb.Add(a.Off, lo), Len: tb.Sub(hi, lo), Cap: tb.Sub(mx, lo)})
	case Ptr:
		if a.Obj == 0 {
			e.raiseRuntime(st, th, "invalid memory address or nil pointer dereference")
		}
		at := deref(in.X.Type()).Underlying().(*types.Array)
		n := tb.Int64(at.Len())
		if hi == nil {
			hi = n
		}
		if mx == nil {
			mx = n
		}
		check(lo, hi, mx, n)
		o := st.obj(a.Obj)
		if o.Kind == OBytes {
			e.setReg(st, th, in, SliceV{Obj: a.Obj, Off: lo, Len: tb.Sub(hi, lo), Cap: tb.Sub(mx, lo)})
		} else {
			e.setReg(st, th, in, SliceV{Obj: a.Obj, Base: a.Path, Off: lo, Len: tb.Sub(hi, lo), Cap: tb.Sub(mx, lo)})
		}
	default:
		panic(&Unsupported{fmt.Sprintf("Slice on %T", x)})
	}
	e.advance(st, th)
}

func (e *Engine) execMakeSlice(st *State, th *Thread, fr *Frame, in *ssa.MakeSlice) {
	tb := e.tb
	ln := e.toIndex(e.get(st, fr, in.Len), in.Len.Type())
	cp := e.toIndex(e.get(st, fr, in.Cap), in.Cap.Type())
	el := in.Type().Underlying().(*types.Slice).Elem()
	// 0 <= len <= cap < 2^48
	if !e.decide(st, tb.And(tb.ULe(ln, cp), tb.ULt(cp, tb.Int64(1<<48)))) {
		e.raiseRuntime(st, th, "makeslice: len out of range")
	}
	site := e.posStr(in.Pos())
	if isByteType(el) {
		id := e.allocBytes(st, tb.ArrZero(), cp)
		o := st.Heap[id]
		o.Harness = fr.Info.harness
		o.Site = site
		e.setReg(st, th, in, SliceV{Obj: id, Off: tb.Int64(0), Len: ln, Cap: cp})
	} else {
		n := e.concretize(st, cp, "make cap")
		l := e.concretize(st, ln, "make len")
		if n > 1<<16 {
			panic(&Unsupported{"make of large non-byte slice"})
		}
		a := &ArrayV{E: make([]Value, n)}
		if n > 0 {
			z := e.zero(el)
			for i := range a.E {
				a.E[i] = z
			}
		}
		id := e.allocCells(st, types.NewArray(el, int64(n)), a)
		o := st.Heap[id]
		o.Harness = fr.Info.harness
		o.Site = site
		e.setReg(st, th, in, SliceV{Obj: id, Off: tb.Int64(0), Len: tb.Int64(int64(l)), Cap: tb.Int64(int64(n))})
	}
	e.advance(st, th)
}

// sliceBytes returns the array snapshot and offset of a byte slice or string value.
func (e *Engine) bytesOf(st *State, v Value) (*ByteArr, *Term, *Term) {
	switch a := v.(type) {
	case StrV:
		a = e.sres(st, a)
		return a.Arr, a.Off, a.Len
	case SliceV:
		if a.Obj == 0 {
			return e.tb.ArrZero(), e.tb.Int64(0), a.Len
		}
		o := st.obj(a.Obj)
		if o.Kind == OCells {
			// a byte array nested inside another object (e.g. a [10]byte struct field): build a view of its cells
			arrV, ok := loadPath(o.V, a.Base).(*ArrayV)
			if !ok {
				panic(&Unsupported{"byte view of a non-array cell"})
			}
			arr := e.tb.ArrZero()
			for i, el := range arrV.E {
				t, isT := el.(*Term)
				if !isT || t.W != 8 {
					panic(&Unsupported{"byte view of a non-byte array"})
				}
				if !(t.IsConst() && t.K == 0) {
					arr = e.tb.ArrStore(arr, e.tb.Int64(int64(i)), t)
				}
			}
			return arr, a.Off, a.Len
		}
		if o.Kind != OBytes {
			panic(&Unsupported{"byte view of a non-byte object"})
		}
		return o.Arr, a.Off, a.Len
	}
	panic(fmt.Sprintf("bytesOf %T", v))
}

func (e *Engine) isByteSlice(st *State, s SliceV, t types.Type) bool {
	if sl, ok := t.Underlying().(*types.Slice); ok {
		return isByteType(sl.Elem())
	}
	if isString(t) {
		return true
	}
	return false
}

// sliceElems returns the concrete elements of a non-byte slice.
func (e *Engine) sliceElems(st *State, s SliceV) []Value {
	n := int(e.constOf(s.Len, "slice length"))
	if n == 0 {
		return nil
	}
	off := int(e.constOf(s.Off, "slice offset"))
	o := st.obj(s.Obj)
	arr := loadPath(o.V, s.Base).(*ArrayV)
	return arr.E[off : off+n]
}

func (e *Engine) doAppend(st *State, th *Thread, sv, tv Value, st0 types.Type) Value {
	tb := e.tb
	s := sv.(SliceV)
	el := st0.Underlying().(*types.Slice).Elem()
	if isByteType(el) {
		srcArr, srcOff, n := e.bytesOf(st, tv)
		newLen := tb.Add(s.Len, n)
		if n.IsConst() && n.K == 0 {
			return s
		}
		if s.Obj != 0 && e.decide(st, tb.SLe(newLen, s.Cap)) {
			o := st.wobj(s.Obj)
			if e.Cfg.Race && st.Multi {
				e.hbAccess(st, th, o, Ptr{Obj: s.Obj, Path: s.Base}, true, token.NoPos)
			}
			if o.Kind == OCells {
				e.writeCellBytes(st, o, s, s.Len, srcArr, srcOff, n)
				return SliceV{Obj: s.Obj, Base: s.Base, Off: s.Off, Len: newLen, Cap: s.Cap}
			}
			o.Arr = tb.ArrCopy(o.Arr, tb.Add(s.Off, s.Len), srcArr, srcOff, n)
			return SliceV{Obj: s.Obj, Off: s.Off, Len: newLen, Cap: s.Cap}
		}
		// grow
		if s.Obj != 0 && st.obj(s.Obj).Kind == OCells {
			oa, oo, ol := e.bytesOf(st, s)
			arr := tb.ArrCopy(tb.ArrZero(), tb.Int64(0), oa, oo, ol)
			arr = tb.ArrCopy(arr, s.Len, srcArr, srcOff, n)
			nc := tb.Add(newLen, newLen)
			id := e.allocBytes(st, arr, nc)
			return SliceV{Obj: id, Off: tb.Int64(0), Len: newLen, Cap: nc}
		}
		dbl := tb.Add(s.Cap, s.Cap)
		newCap := tb.Ite(tb.SLt(dbl, newLen), newLen, dbl)
		var oldArr *ByteArr = tb.ArrZero()
		if s.Obj != 0 {
			oldArr = st.obj(s.Obj).Arr
		}
		arr := tb.ArrCopy(tb.ArrZero(), tb.Int64(0), oldArr, s.Off, s.Len)
		arr = tb.ArrCopy(arr, s.Len, srcArr, srcOff, n)
		id := e.allocBytes(st, arr, newCap)
		st.Heap[id].Site = "append"
		return SliceV{Obj: id, Off: tb.Int64(0), Len: newLen, Cap: newCap}
	}
	t := tv.(SliceV)
	add := e.sliceElems(st, t)
	if len(add) == 0 {
		return s
	}
	ln := int(e.constOf(s.Len, "slice length"))
	cp := int(e.constOf(s.Cap, "slice cap"))
	off := int(e.constOf(s.Off, "slice offset"))
	if s.Obj != 0 && ln+len(add) <= cp {
		o := st.wobj(s.Obj)
		if e.Cfg.Race && st.Multi {
			e.hbAccess(st, th, o, Ptr{Obj: s.Obj}, true, token.NoPos)
		}
		arr := loadPath(o.V, s.Base).(*ArrayV)
		na := &ArrayV{E: append([]Value(nil), arr.E...)}
		copy(na.E[off+ln:], add)
		o.V = storePath(o.V, s.Base, na)
		return SliceV{Obj: s.Obj, Base: s.Base, Off: s.Off, Len: tb.Int64(int64(ln + len(add))), Cap: s.Cap}
	}
	newCap := 2 * cp
	if newCap < ln+len(add) {
		newCap = ln + len(add)
	}
	na := &ArrayV{E: make([]Value, newCap)}
	z := e.zero(el)
	for i := range na.E {
		na.E[i] = z
	}
	if ln > 0 {
		copy(na.E, e.sliceElems(st, s))
	}
	copy(na.E[ln:], add)
	id := e.allocCells(st, types.NewArray(el, int64(newCap)), na)
	st.Heap[id].Site = "append"
	return SliceV{Obj: id, Off: tb.Int64(0), Len: tb.Int64(int64(ln + len(add))), Cap: tb.Int64(int64(newCap))}
}

func (e *Engine) doCopy(st *State, th *Thread, dv, sv Value, dt types.Type) Value {
	tb := e.tb
	d := dv.(SliceV)
	el := dt.Underlying().(*types.Slice).Elem()
	if isByteType(el) {
		srcArr, srcOff, sn := e.bytesOf(st, sv)
		n := tb.Ite(tb.SLt(d.Len, sn), d.Len, sn)
		if n.IsConst() && n.K == 0 {
			return n
		}
		if d.Obj == 0 {
			return tb.Int64(0)
		}
		o := st.wobj(d.Obj)
		if e.Cfg.Race && st.Multi {
			e.hbAccess(st, th, o, Ptr{Obj: d.Obj, Path: d.Base}, true, token.NoPos)
		}
		if o.Kind == OCells {
			e.writeCellBytes(st, o, d, tb.Int64(0), srcArr, srcOff, n)
			return n
		}
		o.Arr = tb.ArrCopy(o.Arr, d.Off, srcArr, srcOff, n)
		return n
	}
	s := sv.(SliceV)
	src := e.sliceElems(st, s)
	dl := int(e.constOf(d.Len, "slice length"))
	n := len(src)
	if dl < n {
		n = dl
	}
	if n == 0 {
		return tb.Int64(0)
	}
	src = append([]Value(nil), src[:n]...)
	off := int(e.constOf(d.Off, "slice offset"))
	o := st.wobj(d.Obj)
	arr := loadPath(o.V, d.Base).(*ArrayV)
	na := &ArrayV{E: append([]Value(nil), arr.E...)}
	copy(na.E[off:], src)
	o.V = storePath(o.V, d.Base, na)
	return tb.Int64(int64(n))
}

// ---------------------------------------------------------------------------
// maps (concrete keys)

func (e *Engine) keyConcrete(st *State, k Value) Value {
	switch x := k.(type) {
	case *Term:
		if !x.IsConst() {
			v := e.concretize(st, x, "map key")
			return e.tb.Const(x.W, v)
		}
		return x
	case StrV:
		x = e.sres(st, x)
		if s, ok := x.constString(); ok {
			return StrV{Arr: e.tb.ArrLit(s), Off: e.tb.Int64(0), Len: e.tb.Int64(int64(len(s)))}
		}
		// try to make it concrete when content is constant
		if x.Len.IsConst() && x.Off.IsConst() && x.Len.K < 4096 {
			b := make([]byte, x.Len.K)
			for i := range b {
				t := e.tb.ArrRead(x.Arr, e.tb.Int64(int64(x.Off.K)+int64(i)))
				if !t.IsConst() {
					panic(&Unsupported{"symbolic string as map key"})
				}
				b[i] = byte(t.K)
			}
			s := string(b)
			return StrV{Arr: e.tb.ArrLit(s), Off: e.tb.Int64(0), Len: e.tb.Int64(int64(len(s)))}
		}
		panic(&Unsupported{"symbolic string as map key"})
	case IfaceV:
		if x.T == nil {
			return x
		}
		return IfaceV{T: x.T, V: e.keyConcrete(st, x.V)}
	case Ptr, ChanV:
		return x
	case *StructV:
		n := &StructV{F: make([]Value, len(x.F))}
		for i, f := range x.F {
			n.F[i] = e.keyConcrete(st, f)
		}
		return n
	}
	panic(&Unsupported{fmt.Sprintf("map key of kind %T", k)})
}

func (e *Engine) sameKey(a, b Value) bool {
	switch x := a.(type) {
	case *Term:
		y, ok := b.(*Term)
		return ok && x == y
	case StrV:
		y, ok := b.(StrV)
		if !ok {
			return false
		}
		s1, _ := x.constString()
		s2, _ := y.constString()
		return s1 == s2
	case IfaceV:
		y, ok := b.(IfaceV)
		if !ok {
			return false
		}
		if x.T == nil || y.T == nil {
			return x.T == nil && y.T == nil
		}
		return types.Identical(x.T, y.T) && e.sameKey(x.V, y.V)
	case Ptr:
		y, ok := b.(Ptr)
		return ok && x.Obj == y.Obj && x.Path == y.Path && x.Idx == y.Idx
	case ChanV:
		y, ok := b.(ChanV)
		return ok && x == y
	case *StructV:
		y, ok := b.(*StructV)
		if !ok || len(x.F) != len(y.F) {
			return false
		}
		for i := range x.F {
			if !e.sameKey(x.F[i], y.F[i]) {
				return false
			}
		}
		return true
	}
	return false
}

func (e *Engine) mapLookup(st *State, th *Thread, m MapV, k Value) (Value, bool) {
	if m.Obj == 0 {
		return nil, false
	}
	k = e.keyConcrete(st, k)
	o := st.obj(m.Obj)
	if e.Cfg.Race && st.Multi {
		e.hbAccess(st, th, o, Ptr{Obj: m.Obj}, false, token.NoPos)
	}
	for i, kk := range o.Keys {
		if e.sameKey(kk, k) {
			return o.Vals[i], true
		}
	}
	return nil, false
}

func (e *Engine) mapUpdate(st *State, th *Thread, m MapV, k, v Value) {
	if m.Obj == 0 {
		e.raiseRuntime(st, th, "assignment to entry in nil map")
	}
	k = e.keyConcrete(st, k)
	o := st.wobj(m.Obj)
	if e.Cfg.Race && st.Multi {
		e.hbAccess(st, th, o, Ptr{Obj: m.Obj}, true, token.NoPos)
	}
	for i, kk := range o.Keys {
		if e.sameKey(kk, k) {
			o.Vals[i] = v
			return
		}
	}
	o.Keys = append(o.Keys, k)
	o.Vals = append(o.Vals, v)
}

func (e *Engine) mapDelete(st *State, th *Thread, m MapV, k Value) {
	if m.Obj == 0 {
		return
	}
	k = e.keyConcrete(st, k)
	o := st.wobj(m.Obj)
	if e.Cfg.Race && st.Multi {
		e.hbAccess(st, th, o, Ptr{Obj: m.Obj}, true, token.NoPos)
	}
	for i, kk := range o.Keys {
		if e.sameKey(kk, k) {
			o.Keys = append(o.Keys[:i:i], o.Keys[i+1:]...)
			o.Vals = append(o.Vals[:i:i], o.Vals[i+1:]...)
			return
		}
	}
}

func (e *Engine) execRange(st *State, th *Thread, fr *Frame, in *ssa.Range) {
	x := e.get(st, fr, in.X)
	switch a := x.(type) {
	case MapV:
		it := &IterV{}
		if a.Obj != 0 {
			o := st.obj(a.Obj)
			if e.Cfg.Race && st.Multi {
				e.hbAccess(st, th, o, Ptr{Obj: a.Obj}, false, in.Pos())
			}
			it.Keys = append([]Value(nil), o.Keys...)
			it.Vals = append([]Value(nil), o.Vals...)
		}
		e.setReg(st, th, in, it)
	case StrV:
		if s, ok := a.constString(); ok {
			it := &IterV{}
			for i, r := range s {
				it.Keys = append(it.Keys, e.tb.Int64(int64(i)))
				it.Vals = append(it.Vals, e.tb.Const(32, uint64(r)))
			}
			e.setReg(st, th, in, it)
		} else {
			panic(&Unsupported{"range over symbolic string"})
		}
	default:
		panic(&Unsupported{fmt.Sprintf("range over %T", x)})
	}
	e.advance(st, th)
}

func (e *Engine) execNext(st *State, th *Thread, fr *Frame, in *ssa.Next) {
	it := e.get(st, fr, in.Iter).(*IterV)
	tup := in.Type().(*types.Tuple)
	if it.I >= len(it.Keys) {
		e.setReg(st, th, in, TupleV{e.tb.False, e.zero(tup.At(1).Type()), e.zero(tup.At(2).Type())})
	} else {
		e.setReg(st, th, in, TupleV{e.tb.True, it.Keys[it.I], it.Vals[it.I]})
		// iterator is mutable state held in a register: replace with advanced copy
		n := *it
		n.I++
		e.setReg(st, th, in.Iter.(ssa.Value), &n)
	}
	e.advance(st, th)
}

// writeCellBytes copies n bytes from src[soff...] into the cells-backed byte array slice d, starting at slice
// index at (concrete offsets and length required).
func (e *Engine) writeCellBytes(st *State, o *Object, d SliceV, at *Term, src *ByteArr, soff, n *Term) {
	tb := e.tb
	cnt := int(e.constOf(n, "length of a copy into a nested byte array"))
	base := int(e.constOf(tb.Add(d.Off, at), "offset of a copy into a nested byte array"))
	arrV := loadPath(o.V, d.Base).(*ArrayV)
	na := &ArrayV{E: append([]Value(nil), arrV.E...)}
	vals := make([]*Term, cnt)
	for i := 0; i < cnt; i++ {
		vals[i] = tb.ArrRead(src, tb.Add(soff, tb.Int64(int64(i))))
	}
	for i := 0; i < cnt; i++ {
		na.E[base+i] = vals[i]
	}
	o.V = storePath(o.V, d.Base, na)
}

// sres resolves an aliasing string (StrV.Alias) to the bytes its memory holds now.
func (e *Engine) sres(st *State, s StrV) StrV {
	if s.Alias == 0 {
		return s
	}
	o := st.obj(s.Alias)
	if o.Kind != OBytes {
		panic(&Unsupported{"string aliasing a non-byte object"})
	}
	return StrV{Arr: o.Arr, Off: s.Off, Len: s.Len}
}

// sresDeep resolves aliasing strings inside interface values (map keys, comparisons).
func (e *Engine) sresDeep(st *State, v Value) Value {
	switch x := v.(type) {
	case StrV:
		return e.sres(st, x)
	case IfaceV:
		if s, ok := x.V.(StrV); ok && s.Alias != 0 {
			return IfaceV{T: x.T, V: e.sres(st, s)}
		}
	}
	return v
}

// pun reinterprets a value loaded through a pointer obtained by an unsafe cast: a slice header read as a string
// (the string then aliases the slice's memory) and a string header read as a byte slice.
func (e *Engine) pun(st *State, v Value, t types.Type) Value {
	switch x := v.(type) {
	case SliceV:
		if b, ok := t.Underlying().(*types.Basic); ok && b.Info()&types.IsString != 0 {
			if x.Obj == 0 {
				return StrV{Arr: e.tb.ArrZero(), Off: e.tb.Int64(0), Len: x.Len}
			}
			if st.obj(x.Obj).Kind != OBytes {
				panic(&Unsupported{"string view of a non-byte object"})
			}
			return StrV{Off: x.Off, Len: x.Len, Alias: x.Obj}
		}
	case StrV:
		if sl, ok := t.Underlying().(*types.Slice); ok {
			if b, ok := sl.Elem().Underlying().(*types.Basic); ok && b.Kind() == types.Uint8 {
				if x.Alias != 0 {
					return SliceV{Obj: x.Alias, Off: x.Off, Len: x.Len, Cap: x.Len}
				}
				// bytes of an ordinary string: a private copy (writing through it is undefined in Go anyway)
				id := e.allocBytes(st, e.tb.ArrCopy(e.tb.ArrZero(), e.tb.Int64(0), x.Arr, x.Off, x.Len), x.Len)
				st.Heap[id].Site = "unsafe string bytes"
				return SliceV{Obj: id, Off: e.tb.Int64(0), Len: x.Len, Cap: x.Len}
			}
		}
	}
	return v
}
