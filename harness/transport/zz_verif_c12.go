package transport

import (
	"context"

	"github.com/go-netty/go-netty/internal/vrt"
)

// ZZ_C12_ParseOptions: two goroutines parse the options of their Connect / Listen from the SAME caller-owned option
// slice (what two concurrent bs.Connect(url, opts...) calls with a shared opts do); the slice has spare capacity.
// Parsing must not write to the caller's slice, and each call gets its own address.
func ZZ_C12_ParseOptions() {
	opts := make([]Option, 1, 4)
	opts[0] = WithAttachment(1)
	vrt.Monitored(&opts[0])
	urls := [2]string{"zz://a:1", "zz://b:2"}
	var got [2]*Options
	for i := 0; i < 2; i++ {
		i := i
		vrt.Go("connect"+string(rune('0'+i)), func() {
			o, err := ParseOptions(context.Background(), urls[i], opts...)
			vrt.Assert(err == nil && o != nil, "c12-options-parsed")
			got[i] = o
		})
	}
	vrt.Quiesce()
	vrt.Assert(got[0] != nil && got[1] != nil && got[0].Address != got[1].Address, "c12-each-call-has-its-own-address")
	vrt.Reach("c12-parse-options-done")
}
