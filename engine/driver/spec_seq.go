package driver

func init() {
	// ---------------------------------------------------------------- C14
	{
		var quick, thorough []*Job
		add := func(list *[]*Job, pkg, fn, bounds string, args ...int64) {
			*list = append(*list, &Job{Pkg: pkg, Func: fn, Args: args, Bounds: bounds})
		}
		bh := "content of 0..5 symbolic bytes (length case-split); fragmenting readers: <=2 short reads, last fragment with or without io.EOF; WriterTo reusing its buffer"
		for k := int64(0); k < 14; k++ {
			add(&quick, "utils", "ZZ_C14_ToBytes", bh, k)
			add(&quick, "utils", "ZZ_C14_ToReader", bh, k)
		}
		add(&quick, "utils", "ZZ_C14_CountOf", "three slices of symbolic length in [0,2^40]")
		add(&quick, "utils", "ZZ_C14_ByteReader", bh, 0)
		add(&quick, "utils", "ZZ_C14_ByteReader", bh, 1)
		for k := int64(0); k < 5; k++ {
			add(&quick, "utils", "ZZ_C14_StealBytes", bh, k)
		}
		bs := "sizes {0,1,2,3,1023,1024,1025,2047,2048,2049,65536,65537} (argument 2 indexes this list), symbolic contents; synchronous channel (queue 0) or queued channel (queue>0, sender thread explored)"
		// (kind, sizeIdx, queue)
		for kind := int64(0); kind <= 8; kind++ {
			for _, si := range []int64{0, 1, 3, 5, 6} {
				if kind >= 6 && si > 1 {
					continue
				}
				add(&quick, "", "ZZ_C14_Head", bs, kind, si, 0)
			}
			for _, si := range []int64{2, 4, 7, 8, 9, 10, 11} {
				if kind >= 6 {
					continue
				}
				add(&thorough, "", "ZZ_C14_Head", bs, kind, si, 0)
			}
		}
		for kind := int64(0); kind <= 7; kind++ {
			add(&quick, "", "ZZ_C14_Head", bs, kind, 6, 2)
			add(&thorough, "", "ZZ_C14_Head", bs, kind, 9, 1)
			add(&thorough, "", "ZZ_C14_Head", bs, kind, 3, 3)
		}
		bb := "three messages ([]byte / *bytes.Buffer / [][]byte, sizes 1, w-1, w, 2w+1 around the write buffer w=4; pattern packs size and carrier per message, base 8) through the head handler of a queued channel over the REAL buffered transport wrappers, sender run manually so that packets are batched"
		for _, v := range [][]int64{{0, 4}, {16, 4}} {
			for _, pat := range []int64{192, 2*64, 0*1 + 3*8 + 1*64, 3*1 + 0*8 + 3*64, 4 + 3*8 + 2*64, 1 + 7*8 + 3*64 + 512, 2 + 2*8 + 3*64} {
				add(&quick, "", "ZZ_C14_Buffered", bb, v[0], v[1], 3, pat)
			}
			add(&thorough, "", "ZZ_C14_Buffered", bb, v[0], v[1], 1, 3+3*8+0*64)
			add(&thorough, "", "ZZ_C14_Buffered", bb, v[0], v[1], 2, 0+3*8+3*64+512)
		}
		Specs["C14"] = &Spec{
			Jobs:      jobsBy(quick, thorough),
			MustReach: []string{"c14-tobytes-done", "c14-tobytes-unsupported", "c14-toreader-done", "c14-toreader-unsupported", "c14-countof-done", "c14-bytereader-done", "c14-steal-done", "c14-head-done", "c14-head-unsupported", "c14-buffered-done"},
			Bounds: map[string]string{
				"quick":    "helpers: 10 carrier kinds x content 0..5 symbolic bytes; head handler: 9 message kinds x sizes {0,1,3,1024,1025} on the synchronous channel and size 1025 on a queued channel (queue 2)",
				"thorough": "plus sizes 2,1023,2047,2048,2049,65536,65537 on the synchronous channel and sizes 3/2049 on queued channels",
			},
			Outside: "sizes other than the listed ones above 5 bytes; readers that fragment more than twice (large reads split only at 1, k/2, k-1)",
			Assumptions: append([]string{
				"sync.Pool modelled as empty with Put havocking the buffer (DESIGN.md C10)",
			}, commonAssumptions...),
		}
	}
	// ---------------------------------------------------------------- C16
	{
		var quick, thorough []*Job
		b := "string of 0..4 symbolic bytes (any byte values: invalid UTF-8, NUL, delimiter bytes where no delimiter codec sits underneath) or 2049 symbolic bytes"
		for p := int64(0); p <= 6; p++ {
			quick = append(quick, &Job{Pkg: "codec/format", Func: "ZZ_C16_Text", Args: []int64{p, 0}, Bounds: b})
			l := &thorough
			if p == 0 || p == 4 {
				l = &quick
			}
			if p == 5 {
				continue // 2049-byte string through the byte-wise delimiter scan: > 300 s of per-byte solver calls
			}
			*l = append(*l, &Job{Pkg: "codec/format", Func: "ZZ_C16_Text", Args: []int64{p, 1}, Bounds: b})
		}
		quick = append(quick, &Job{Pkg: "codec/format", Func: "ZZ_C16_Text", Args: []int64{7, 0}, Bounds: b})
		for u := int64(0); u <= 4; u++ {
			quick = append(quick, &Job{Pkg: "codec/format", Func: "ZZ_C16_TextRetained", Args: []int64{u}, Bounds: "two strings of 1..3 symbolic bytes through one codec chain (packet / length-field / delimiter / varint codec underneath); both strings compared after the second delivery"})
		}
		for _, c := range [][]int64{{0, 0}, {1, 0}, {0, 1}, {1, 1}} {
			quick = append(quick, &Job{Pkg: "codec/format", Func: "ZZ_C16_JSON", Args: c, Bounds: "frame bytes symbolic (0..3 or 2049 bytes); encoding/json replaced by its contract stub"})
		}
		for _, c := range [][]int64{{0, 0}, {1, 1}} {
			quick = append(quick, &Job{Pkg: "codec/format", Func: "ZZ_C16_JSONTwoFrames", Args: c, PoolPrecise: true, Bounds: "two frames of 1..3 and 0..2 symbolic bytes through one JSON codec instance; the decoder stub reads ahead and may leave unconsumed bytes behind; precise sync.Pool model (a pooled decoder is reused)"})
		}
		Specs["C16"] = &Spec{
			Jobs:      jobsBy(quick, thorough),
			MustReach: []string{"c16-text-done", "c16-retained-done", "c16-json-decoded", "c16-json-rejected", "c16-json-encoded", "c16-json-second-decoded"},
			Bounds: map[string]string{
				"quick":    "text codec: strings of 0..4 arbitrary bytes through 7 inbound paths ([]byte, *bytes.Reader, fragmenting reader, *bytes.Buffer, length-field / delimiter / varint codec underneath) and 2049-byte strings through 2 of them; two strings of 1..3 bytes through one chain of packet / length-field / delimiter / varint codec + text codec, both looked at after the second delivery (a received string must not change with later traffic); JSON codec: wiring under the encoding/json contract stub for all four flag combinations",
				"thorough": "2049-byte strings through 6 of the 7 paths (not through the byte-wise delimiter scan)",
			},
			Outside: "what encoding/json itself does with the bytes (big numbers, malformed input, nesting): assumed per the library's documented contract - the check decides only the repository's wiring (exact frame bytes reach the decoder, flags applied, errors raised, decoded object delivered unchanged, marshalled bytes forwarded unchanged)",
			Assumptions: append([]string{
				"encoding/json contract: Decoder.Decode(frame) returns an object equal to the encoded one iff the frame holds one complete valid JSON object, honouring UseNumber/DisallowUnknownFields; Marshal is its inverse on JSON-representable objects",
			}, commonAssumptions...),
		}
	}
	// ---------------------------------------------------------------- C17
	{
		var quick, thorough []*Job
		b := "payload sizes {0,1,w-1,w,w+1,2w+1} (mode 0) or {1,w,2w+1} (mode 1) around the write buffer size w=4 (bufio minimum-size reader 16), symbolic contents; every sequence of nops operations out of Write/Writev(2 buffers)/Flush"
		for _, v := range [][]int64{{0, 0}, {16, 0}, {0, 4}, {16, 4}} {
			quick = append(quick, &Job{Pkg: "transport", Func: "ZZ_C17_Write", Args: []int64{v[0], v[1], 2, 0}, Bounds: b})
			quick = append(quick, &Job{Pkg: "transport", Func: "ZZ_C17_Write", Args: []int64{v[0], v[1], 3, 1}, Bounds: b})
			thorough = append(thorough, &Job{Pkg: "transport", Func: "ZZ_C17_Write", Args: []int64{v[0], v[1], 3, 0}, Bounds: b})
			thorough = append(thorough, &Job{Pkg: "transport", Func: "ZZ_C17_Write", Args: []int64{v[0], v[1], 4, 1}, Bounds: b})
			quick = append(quick, &Job{Pkg: "transport", Func: "ZZ_C17_Read", Args: []int64{v[0], v[1], 0}, Bounds: "peer data 0..5 bytes, <=2 short reads, caller buffers of 1/3/20 bytes"})
			quick = append(quick, &Job{Pkg: "transport", Func: "ZZ_C17_Read", Args: []int64{v[0], v[1], 1}, Bounds: "peer data 37 bytes (> 16-byte read buffer)"})
		}
		quick = append(quick, &Job{Pkg: "transport", Func: "ZZ_C17_Write", Args: []int64{16, 1, 3, 1}, Bounds: b})
		thorough = append(thorough, &Job{Pkg: "transport", Func: "ZZ_C17_Write", Args: []int64{0, 1, 3, 0}, Bounds: b})
		thorough = append(thorough, &Job{Pkg: "transport", Func: "ZZ_C17_Write", Args: []int64{16, 9, 3, 0}, Bounds: b})
		Specs["C17"] = &Spec{
			Jobs:      jobsBy(quick, thorough),
			MustReach: []string{"c17-flush-checked", "c17-write-done", "c17-read-done"},
			Bounds: map[string]string{
				"quick":    "all four wrapper variants (raw, read-buffered, write-buffered, both); write buffer 4 bytes (and 1 byte once); all sequences of 2 operations with 6 payload sizes and of 3 operations with 3 payload sizes out of Write/Writev/Flush; reads of 0..5 and 37 peer bytes with <=2 short reads",
				"thorough": "all sequences of 3 operations with 6 sizes and of 4 operations with 3 sizes; write buffers 1 and 9",
			},
			Outside:     "errors from the connection; write buffer sizes other than 1, 4, 9; more than 4 operations (bufio.Writer's state is its buffer fill level, which the 3-4 operation sequences drive through empty/partial/full/overflow)",
			Assumptions: commonAssumptions,
		}
	}
	// ---------------------------------------------------------------- C03
	{
		var quick, thorough []*Job
		b := "programs of `ops` operations out of AddFirst/AddLast/AddHandler(pos) (pos symbolic over [-1,size], illegal positions included), handlers implementing exactly the event's interface / all six / exactly one other / none, forwarding or not; one event of the given kind through the given entry point"
		// (ops, kind, entry, multi)
		for kind := int64(0); kind < 6; kind++ {
			quick = append(quick, &Job{Pkg: "", Func: "ZZ_C03_Pipeline", Args: []int64{2, kind, 0, 0}, Bounds: b})
			thorough = append(thorough, &Job{Pkg: "", Func: "ZZ_C03_Pipeline", Args: []int64{2, kind, 0, 1}, Bounds: b})
		}
		quick = append(quick, &Job{Pkg: "", Func: "ZZ_C03_Pipeline", Args: []int64{2, 1, 0, 1}, Bounds: b})
		for _, k := range []int64{0, 1, 5} {
			quick = append(quick, &Job{Pkg: "", Func: "ZZ_C03_LateInsert", Args: []int64{k}, Bounds: "two handlers (all variants), one inbound event, a third handler inserted first / in the middle / last, the same event again"})
		}
		quick = append(quick, &Job{Pkg: "", Func: "ZZ_C03_Pipeline", Args: []int64{2, 5, 3, 0}, Bounds: b + "; entry 3: Channel.Trigger after the channel was closed"})
		quick = append(quick, &Job{Pkg: "", Func: "ZZ_C03_Pipeline", Args: []int64{2, 2, 4, 0}, Bounds: b + "; entry 4: ctx.Write whose transport write is refused - the exception travels from the head"})
		for _, kind := range []int64{2, 5} {
			quick = append(quick, &Job{Pkg: "", Func: "ZZ_C03_Pipeline", Args: []int64{2, kind, 1, 0}, Bounds: b})
			quick = append(quick, &Job{Pkg: "", Func: "ZZ_C03_Pipeline", Args: []int64{2, kind, 2, 0}, Bounds: b})
			thorough = append(thorough, &Job{Pkg: "", Func: "ZZ_C03_Pipeline", Args: []int64{3, kind, 2, 0}, Bounds: b, Limit: 3600e9})
		}
		thorough = append(thorough, &Job{Pkg: "", Func: "ZZ_C03_Pipeline", Args: []int64{3, 1, 0, 0}, Bounds: b, Limit: 3600e9})
		thorough = append(thorough, &Job{Pkg: "", Func: "ZZ_C03_Pipeline", Args: []int64{3, 3, 0, 0}, Bounds: b, Limit: 3600e9})
		Specs["C03"] = &Spec{
			Jobs:      jobsBy(quick, thorough),
			MustReach: []string{"c03-done", "c03-trigger-after-close", "c03-ctx-write-fault", "c03-late-insert-done", "c03-illegal-position", "c03-write-reaches-transport", "c03-exception-closes"},
			Bounds: map[string]string{
				"quick":    "all programs of 2 building operations (single-handler calls), 8 handler variants per handler, every insert position incl. illegal ones; all six event kinds through pipeline.Fire*, write/user-event also through Channel.Write/Trigger and ctx.Write/Trigger from every user position",
				"thorough": "plus two-handler calls with a repeated instance, and programs of 3 operations for read/exception/write/event",
			},
			Outside:     "mutation of the pipeline while events flow; more than 3 building operations; more than two handlers per call",
			Assumptions: commonAssumptions,
			Witness:     2,
		}
	}
}
