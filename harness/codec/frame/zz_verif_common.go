package frame

import (
	"encoding/binary"
	"io"

	"github.com/go-netty/go-netty"
	"github.com/go-netty/go-netty/internal/vrt"
)

// zzCtx is a handler context that records what a codec forwards.
type zzCtx struct {
	out []netty.Message
	in  []netty.Message
}

func (m *zzCtx) Channel() netty.Channel               { return nil }
func (m *zzCtx) Handler() netty.Handler               { return nil }
func (m *zzCtx) Write(message netty.Message)          { m.out = append(m.out, message) }
func (m *zzCtx) Trigger(event netty.Event)            {}
func (m *zzCtx) Close(err error)                      {}
func (m *zzCtx) Attachment() netty.Attachment         { return nil }
func (m *zzCtx) SetAttachment(netty.Attachment)       {}
func (m *zzCtx) HandleWrite(message netty.Message)    { m.out = append(m.out, message) }
func (m *zzCtx) HandleRead(message netty.Message)     { m.in = append(m.in, message) }

// zzSrc is the transport seen by a decoder: it hands out the wire bytes in fragments.
//
//	frag == 0: every Read returns as much as fits
//	frag == 1: up to `splits` Reads return fewer bytes than would fit (an arbitrary k, case-split by the
//	           executor so that offsets stay concrete); the others return as much as fits
//	frag == 2: every Read returns one byte
//
// eofWithData: the last fragment is returned together with io.EOF (allowed by io.Reader).
// After the data: endErr (io.EOF by default).
type zzSrc struct {
	data        []byte
	off         int
	frag        int
	splits      int
	eofWithData bool
	endErr      error
	reads       int
	zeroReads   int
}

func (s *zzSrc) Read(p []byte) (int, error) {
	s.reads++
	rem := len(s.data) - s.off
	if rem == 0 {
		if s.endErr != nil {
			return 0, s.endErr
		}
		return 0, io.EOF
	}
	if len(p) == 0 {
		return 0, nil
	}
	k := rem
	if len(p) < k {
		k = len(p)
	}
	if s.frag == 2 {
		k = 1
	} else if s.frag == 1 && k > 1 && s.splits > 0 {
		k = vrt.Concrete(k)
		c := zzSplit(k)
		if c < k {
			s.splits--
			k = c
		}
	}
	copy(p, s.data[s.off:s.off+k])
	s.off += k
	if s.off == len(s.data) && s.eofWithData {
		if s.endErr != nil {
			return k, s.endErr
		}
		return k, io.EOF
	}
	return k, nil
}

// zzDrain reads a delivered message to its end with one large buffer; ok is false if the
// reader failed with something other than io.EOF.
func zzDrain(msg netty.Message, capacity int) (got []byte, ok bool) {
	switch m := msg.(type) {
	case []byte:
		return m, true
	case io.Reader:
		buf := make([]byte, capacity)
		n := 0
		for i := 0; i < 64; i++ {
			if n == len(buf) {
				// buffer full: one more probe must report end of message
				var one [1]byte
				k, err := m.Read(one[:])
				if k > 0 {
					return buf[:n], false
				}
				if err == io.EOF {
					return buf[:n], true
				}
				if err != nil {
					return buf[:n], false
				}
				continue
			}
			k, err := m.Read(buf[n:])
			n += k
			if err == io.EOF {
				return buf[:n], true
			}
			if err != nil {
				return buf[:n], false
			}
		}
		vrt.Cut("drain-iterations")
	}
	return nil, false
}

func zzOrder(o int) binary.ByteOrder {
	if o == 0 {
		return binary.BigEndian
	}
	return binary.LittleEndian
}

// zzFlatten concatenates what an encoder forwarded ([][]byte, []byte or a reader).
func zzFlatten(msg netty.Message, capacity int) ([]byte, bool) {
	switch m := msg.(type) {
	case [][]byte:
		var w []byte
		for _, b := range m {
			w = append(w, b...)
		}
		return w, true
	case []byte:
		return m, true
	case io.Reader:
		return zzDrain(m, capacity)
	}
	return nil, false
}

// zzRefFrame is the reference framing used to cross-check decoders: prefix bytes (arbitrary),
// a w-byte length field holding v, then the body.
func zzRefFrame(w, order, off int, v int, body []byte) []byte {
	f := make([]byte, 0, 32)
	for i := 0; i < off; i++ {
		f = append(f, vrt.Byte())
	}
	var fld [8]byte
	u := uint64(v)
	for i := 0; i < w; i++ {
		if order == 0 {
			fld[w-1-i] = byte(u >> (8 * uint(i)))
		} else {
			fld[i] = byte(u >> (8 * uint(i)))
		}
	}
	f = append(f, fld[:w]...)
	f = append(f, body...)
	return f
}

// zzSameBytes asserts got == want (lengths and, through a free index, every byte).
func zzSameBytes(got, want []byte, label string) {
	vrt.Assert(len(got) == len(want), label+"-length")
	if len(want) > 0 {
		i := vrt.IntIn(0, len(want)-1)
		vrt.Assert(got[i] == want[i], label+"-content")
	}
}

// zzSplit picks the size of a short read out of k available bytes: every size for small k,
// the sizes 1, k/2, k-1 (or no split) for larger k.
func zzSplit(k int) int {
	if k <= 8 {
		return vrt.Choose(k) + 1
	}
	switch vrt.Choose(4) {
	case 0:
		return 1
	case 1:
		return k / 2
	case 2:
		return k - 1
	}
	return k
}
