package driver

func init() {
	var quick, thorough []*Job
	b := "two goroutines each write one message (3 and 2 bytes, first byte a tag, the rest symbolic) through Channel.Write on one channel; carriers: 0 []byte, 1 [][]byte, 2 *bytes.Buffer, 3 io.WriterTo (writes byte by byte), 4 io.Reader (two fragments), 5 string through text+delimiter codecs (the README pipeline), 6 length-field codec, 7 varint codec, 8 delimiter codec with []byte; synchronous (q=0) and queued channels; ALL interleavings"
	add := func(list *[]*Job, args ...int64) {
		*list = append(*list, &Job{Pkg: "zzharness", Func: "ZZ_C09_Contiguous", Args: args, Bounds: b})
	}
	// (q, carrierA, carrierB, sizeA)
	for _, q := range []int64{0, 2} {
		add(&quick, q, 0, 1, 3)
		add(&quick, q, 2, 0, 3)
		add(&quick, q, 1, 2, 3)
		add(&quick, q, 6, 6, 3)
		add(&quick, q, 7, 7, 3)
		add(&quick, q, 8, 8, 3)
		add(&quick, q, 3, 0, 3-q/2)
		if q == 0 {
			add(&quick, q, 5, 5, 3)
		}
		add(&thorough, q, 4, 0, 3-q/2)
		add(&thorough, q, 4, 4, 3-q/2)
		add(&thorough, q, 3, 3, 3-q/2)
		add(&thorough, q, 0, 0, 3)
		add(&thorough, q, 2, 2, 3)
	}
	add(&quick, 0, 4, 0, 3)
	add(&quick, 2, 4, 0, 2) // a streamed reader on a queued channel: every queued chunk must still be intact when it is sent
	add(&quick, 2, 1, 0, 65537) // a vectored message above the largest pooled size next to a small one on a queued channel
	add(&quick, 0, 9, 0, 1025)
	add(&quick, 2, 10, 0, 1025)
	add(&thorough, 2, 9, 9, 1025)
	add(&thorough, 1, 0, 1, 3)
	add(&thorough, 1, 6, 6, 3)
	Specs["C09"] = &Spec{
		Jobs: jobsBy(quick, thorough), Labels: labelFilter("c09-"),
		MustReach: []string{"c09-done"},
		Bounds: map[string]string{
			"quick":    "2 concurrent messages; 8 carrier pairs on synchronous and queue-2 channels",
			"thorough": "reader/reader, writer-to/writer-to and same-carrier pairs, queue 1",
		},
		Outside:     "more than two concurrent messages; messages above the 1024-byte streaming chunk (the chunking only adds more low-level writes per message)",
		Assumptions: Specs["C01"].Assumptions,
	}
}
