package driver

func init() {
	var quick, thorough []*Job
	b := "every write entry point (Write1, Writev, CtxWrite1, CtxWritev, Writer().Write, Write(message), ReadFrom) x synchronous / queued channel x Close argument (nil, sentinel, wrapped); queued channels: all interleavings with the sender and all select tie-breaks"
	// AfterClose: (q, until, entry, closeArg, pre)
	for entry := int64(0); entry < 7; entry++ {
		for arg := int64(0); arg < 3; arg++ {
			l := &thorough
			if (entry+arg)%3 == 0 || arg == 0 {
				l = &quick
			}
			*l = append(*l, &Job{Pkg: "", Func: "ZZ_C11_AfterClose", Args: []int64{0, 0, entry, arg, (entry + arg) % 2}, Bounds: b})
			*l = append(*l, &Job{Pkg: "", Func: "ZZ_C11_AfterClose", Args: []int64{2, (entry + arg) % 2, entry, arg, (entry + arg + 1) % 2}, Bounds: b})
			thorough = append(thorough, &Job{Pkg: "", Func: "ZZ_C11_AfterClose", Args: []int64{1, (entry + arg + 1) % 2, entry, arg, 1}, Bounds: b})
		}
		// net.Error close arguments (timeout, wrapped timeout, other)
		quick = append(quick, &Job{Pkg: "", Func: "ZZ_C11_AfterClose", Args: []int64{(entry % 2) * 2, 1, entry, 3 + entry%3, entry % 2}, Bounds: b + "; Close argument: timeout net.Error / wrapped timeout / other net.Error"})
		thorough = append(thorough, &Job{Pkg: "", Func: "ZZ_C11_AfterClose", Args: []int64{((entry + 1) % 2) * 2, 0, entry, 3 + (entry+1)%3, 1}, Bounds: b})
		thorough = append(thorough, &Job{Pkg: "", Func: "ZZ_C11_AfterClose", Args: []int64{1, 1, entry, 3 + (entry+2)%3, 0}, Bounds: b})
		// end-of-stream close arguments (io.EOF, wrapped io.ErrUnexpectedEOF)
		quick = append(quick, &Job{Pkg: "", Func: "ZZ_C11_AfterClose", Args: []int64{((entry + 1) % 2) * 2, 1, entry, 6 + entry%2, (entry + 1) % 2}, Bounds: b + "; Close argument: io.EOF / wrapped io.ErrUnexpectedEOF"})
		thorough = append(thorough, &Job{Pkg: "", Func: "ZZ_C11_AfterClose", Args: []int64{(entry % 2) * 2, 0, entry, 7 - entry%2, entry % 2}, Bounds: b})
		// the parent context ends before Close (pre bit 1)
		quick = append(quick, &Job{Pkg: "", Func: "ZZ_C11_AfterClose", Args: []int64{(entry % 2) * 2, entry % 2, entry, entry % 3, 2 + entry%2}, Bounds: b + "; the channel's parent context is cancelled before Close"})
		thorough = append(thorough, &Job{Pkg: "", Func: "ZZ_C11_AfterClose", Args: []int64{((entry + 1) % 2) * 2, 1, entry, (entry + 1) % 3, 3 - entry%2}, Bounds: b + "; the channel's parent context is cancelled before Close"})
		// an empty payload after Close (pre bit 2)
		quick = append(quick, &Job{Pkg: "", Func: "ZZ_C11_AfterClose", Args: []int64{(entry % 2) * 2, 1, entry, entry % 3, 4 + entry%2}, Bounds: b + "; the payload written after Close is empty"})
		thorough = append(thorough, &Job{Pkg: "", Func: "ZZ_C11_AfterClose", Args: []int64{((entry + 1) % 2) * 2, 0, entry, (entry + 1) % 3, 5 - entry%2}, Bounds: b + "; the payload written after Close is empty"})
		quick = append(quick, &Job{Pkg: "", Func: "ZZ_C11_TwoClosers", Args: []int64{(entry % 3), entry % 2, entry}, Bounds: "two concurrent Close calls (the loser returns while the winner is still inside Close, transport calls are scheduling points) and a write that begins after either has returned"})
		// Race: (q, until, entry, closeArg)
		quick = append(quick, &Job{Pkg: "", Func: "ZZ_C11_Race", Args: []int64{1, entry % 2, entry, entry % 3}, Bounds: b})
		thorough = append(thorough, &Job{Pkg: "", Func: "ZZ_C11_Race", Args: []int64{0, 0, entry, (entry + 1) % 3}, Bounds: b})
		thorough = append(thorough, &Job{Pkg: "", Func: "ZZ_C11_Race", Args: []int64{2, (entry + 1) % 2, entry, (entry + 2) % 3}, Bounds: b})
	}
	for _, c := range [][]int64{{0, 0, 1}, {2, 1, 0}, {1, 0, 2}} {
		quick = append(quick, &Job{Pkg: "", Func: "ZZ_C11_ReadFromRace", Args: c, Bounds: "a two-chunk ReadFrom racing with Close; a chunk whose write began after Close had returned must fail"})
	}
	Specs["C11"] = &Spec{
		Jobs: jobsBy(quick, thorough), Labels: labelFilter("c11-"),
		MustReach: []string{"c11-after-close-done", "c11-race-done", "c11-race-write-began-after-close", "c11-readfrom-race-done", "c11-chunk-began-after-close", "c11-write-began-after-a-close-returned"},
		Bounds: map[string]string{
			"quick":    "all 7 entry points with Close(nil) and one other Close argument each, synchronous and queue-2 channels, with or without a payload sent before the Close; a write racing with Close on a queue-1 channel for every entry point (the assertion applies when Close had returned before the call began)",
			"thorough": "all 7 x 3 x {sync, queue 1, queue 2} combinations; races on sync and queue-2 channels",
		},
		Outside:     "writes that began before Close returned (the statement says 'after Close has returned')",
		Assumptions: Specs["C01"].Assumptions,
	}
}
