package driver

func init() {
	var quick, thorough []*Job
	P := "codec/frame"
	add := func(list *[]*Job, fn string, bounds string, args ...int64) {
		*list = append(*list, &Job{Pkg: P, Func: fn, Args: args, Bounds: bounds, BudgetViolation: true})
	}
	b := "arbitrary stream of L symbolic bytes (L = last-but-one argument), ended by io.EOF or another error, the last bytes with or without the error; <=2 short reads at arbitrary positions (frag=1) or byte-by-byte (frag=2); 2-3 decoder calls on the same source"
	// (w, order, off, adj, strip, max, L, frag)
	for _, c := range [][]int64{
		{1, 0, 0, 0, 0, 8, 4, 1}, {1, 0, 0, 0, 1, 8, 0, 1}, {2, 1, 0, 0, 2, 8, 5, 1}, {2, 0, 1, -1, 0, 8, 6, 2},
		{4, 0, 0, 0, 4, 12, 7, 1}, {8, 1, 0, 0, 8, 16, 10, 1}, {8, 0, 0, 4, 0, 24, 9, 1}, {4, 1, 1, 3, 2, 16, 6, 2}, {1, 0, 1, 2, 3, 6, 5, 1}, {8, 0, 0, -8, 0, 16, 9, 2},
	} {
		add(&quick, "ZZ_C08_LengthField", b, c...)
	}
	// maxima small enough that a frame just above the maximum still fits into the stream (w, order, off, adj, strip, max, L, frag)
	for _, c := range [][]int64{{1, 0, 0, 0, 0, 3, 5, 1}, {1, 1, 1, 1, 0, 4, 7, 1}} {
		add(&quick, "ZZ_C08_LengthField", b, c...)
	}
	for _, w := range []int64{1, 2, 4, 8} {
		for _, off := range []int64{0, 2} {
			for _, adj := range []int64{-3, 0, 3} {
				for _, L := range []int64{w + off - 1, w + off, w + off + 2, w + off + 4} {
					if L < 0 {
						continue
					}
					strip := (off + adj + L) % (off + w + 1)
					if strip < 0 {
						strip = 0
					}
					add(&thorough, "ZZ_C08_LengthField", b, w, (off+L)%2, off, adj, strip, w+off+3, L, 1+(L%2))
				}
			}
		}
	}
	// (max, L, frag)
	for _, c := range [][]int64{{4, 4, 1}, {3, 0, 1}, {200, 3, 2}, {4, 6, 1}} {
		add(&quick, "ZZ_C08_Varint", b, c...)
	}
	add(&thorough, "ZZ_C08_Varint", b+"; over-long varints", 4, 11, 0)
	add(&thorough, "ZZ_C08_Varint", b, 8, 7, 1)
	add(&thorough, "ZZ_C08_Varint", b, 2, 5, 2)
	// (dl, stripD, max, L, frag)
	for _, c := range [][]int64{{1, 1, 4, 5, 1}, {2, 0, 4, 6, 1}, {2, 1, 3, 3, 2}, {1, 0, 2, 0, 1}, {3, 1, 6, 6, 1}} {
		add(&quick, "ZZ_C08_Delimiter", b, c...)
	}
	for _, c := range [][]int64{{1, 1, 8, 7, 1}, {2, 1, 6, 7, 2}, {2, 0, 2, 4, 1}, {1, 0, 1, 3, 1}} {
		add(&thorough, "ZZ_C08_Delimiter", b, c...)
	}
	// (fix, L, frag)
	for _, c := range [][]int64{{2, 5, 1}, {1, 0, 1}, {3, 6, 2}, {4, 3, 1}} {
		add(&quick, "ZZ_C08_Fixed", b, c...)
	}
	add(&thorough, "ZZ_C08_Fixed", b, 3, 7, 1)
	add(&thorough, "ZZ_C08_Fixed", b, 8, 9, 2)
	for _, c := range [][]int64{{3, 4, 1}, {1, 2, 2}, {4, 0, 1}} {
		add(&quick, "ZZ_C08_Variable", b, c...)
	}
	for _, k := range []int64{0, 1} {
		add(&quick, "ZZ_C08_Packet", "two packets of 1..3 symbolic bytes through one packet codec instance; the first delivery fails (downstream handler panics / transport error mid-packet)", k)
	}
	Specs["C08"] = &Spec{
		Jobs: jobsBy(quick, thorough),
		MustReach: []string{"c08-fresh-after-reject", "c08-packet-done", "c08-lf-short-header", "c08-lf-invalid-length", "c08-lf-truncated", "c08-lf-complete",
			"c08-varint-bad-header", "c08-varint-oversized", "c08-varint-truncated", "c08-varint-complete",
			"c08-delim-missing", "c08-delim-complete", "c08-fixed-truncated", "c08-fixed-complete", "c08-variable-eos", "c08-variable-done"},
		Bounds: map[string]string{
			"quick":    "streams of 0..10 arbitrary (symbolic) bytes, so every length-field value incl. negative/maximal/overflowing ones is covered; length-field widths 1/2/4/8, both orders, offsets 0..1, adjustments -8..2, strips 0..8, max 6..16; varint max 3/4/200; delimiter 1-2 bytes, max 2..4; fixed length 1..4; variable-length max 1..4; stream end by io.EOF or another error, with or without data; fragmentation as in C04; 2-3 consecutive decoder calls; an exhausted instruction budget is reported as a violation (loop without consuming input)",
			"thorough": "as quick plus 96 more length-field configurations, 11-byte streams with over-long varints, longer delimiter and fixed-length streams",
		},
		Outside: "streams longer than 11 bytes; sources that return (0,nil) forever; delimiter decoder fed a last byte together with io.EOF; the channel-level consequence (peer close => channel inactive) is decided in C05/C07",
		Assumptions: append([]string{
			"reference parsers written in the harness (20 lines each) state what a correct decoder must do with the same bytes",
		}, commonAssumptions...),
	}
}
