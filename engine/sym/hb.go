package sym

import "go/token"

// Happens-before (vector clock) race monitor. See hb_impl.go; these hooks are no-ops unless Cfg.Race.

type shadowKey struct {
	Obj  ObjID
	Path string
}

type shadowCell struct {
	wT   int32 // writer thread slot
	wC   int32 // writer clock
	wPos token.Pos
	rd   []int32 // per-thread-slot read clocks
	rPos []token.Pos
}

func (c *canonicaliser) shadow(id ObjID) {}

func (e *Engine) hbFork(st *State, parent, child *Thread) []int32           { return nil }
func (e *Engine) hbAccess(st *State, th *Thread, o *Object, p Ptr, write bool, pos token.Pos) {}
func (e *Engine) hbAtomic(st *State, th *Thread, p Ptr, write bool)          {}
func (e *Engine) hbAcquire(st *State, th *Thread, p Ptr)                     {}
func (e *Engine) hbRelease(st *State, th *Thread, p Ptr)                     {}
func (e *Engine) hbReleaseShared(st *State, th *Thread, p Ptr)               {}
func (e *Engine) hbChanSend(st *State, th *Thread, o *Object, id ObjID)      {}
func (e *Engine) hbChanRecv(st *State, th *Thread, o *Object, id ObjID, closed bool) {}
func (e *Engine) hbChanClose(st *State, th *Thread, o *Object, id ObjID)     {}
func (e *Engine) hbChanPeek(st *State, th *Thread, o *Object, id ObjID)      {}
func (e *Engine) hbRendezvous(st *State, a, b *Thread)                       {}
func (e *Engine) hbJoinAll(st *State, th *Thread)                            {}
func (e *Engine) hbTimerArm(st *State, th *Thread, id ObjID)                 {}
func (e *Engine) hbTimerFire(st *State, th *Thread, id ObjID)                {}
