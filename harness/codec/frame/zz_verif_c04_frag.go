package frame

import (
	"bytes"
	"io"
	"strings"

	"github.com/go-netty/go-netty"

	"github.com/go-netty/go-netty/internal/vrt"
)

// ZZ_C04_FragLengthField: two frames back to back, every fragmentation of the wire,
// decoder configuration (offset, strip, adjustment) given; reference framing by the harness.
func ZZ_C04_FragLengthField(w, order, off, strip, adj, frames, frag int) {
	dec := LengthFieldCodec(zzOrder(order), 64, off, w, adj, strip)
	var bodies [2][]byte
	var fr [2][]byte
	var wire []byte
	for i := 0; i < frames; i++ {
		n := vrt.Choose(4)
		// length field value v: frame = v + adj + (off+w)  =>  v = n - adj
		vrt.Assume(n-adj >= 0)
		bodies[i] = vrt.Bytes(n)
		fr[i] = zzRefFrame(w, order, off, n-adj, bodies[i])
		wire = append(wire, fr[i]...)
	}
	src := &zzSrc{data: wire, frag: frag, splits: 2, eofWithData: vrt.Choose(2) == 1}
	end := 0
	for i := 0; i < frames; i++ {
		end += len(fr[i])
		ctx := &zzCtx{}
		pv := vrt.Panics(func() { dec.HandleRead(ctx, src) })
		vrt.Assert(pv == nil, "frame-decodes")
		vrt.Assert(len(ctx.in) == 1, "one-delivery-per-frame")
		got, ok := zzDrain(ctx.in[0], 24)
		vrt.Assert(ok, "frame-readable")
		zzSameBytes(got, fr[i][strip:], "delivered")
		vrt.Assert(src.off == end, "consumed-exactly-the-frame")
	}
	vrt.Reach("c04-frag-lengthfield-done")
}

// ZZ_C04_FragVarint: two varint frames, every fragmentation; hdr2 != 0 uses a non-minimal 2-byte header.
func ZZ_C04_FragVarint(frames, hdr2, frag int) {
	dec := VarintLengthFieldCodec(8)
	var fr [2][]byte
	var bodies [2][]byte
	var wire []byte
	for i := 0; i < frames; i++ {
		n := vrt.Choose(4)
		bodies[i] = vrt.Bytes(n)
		var f []byte
		if hdr2 != 0 {
			f = append(f, byte(n)|0x80, 0)
		} else {
			f = append(f, byte(n))
		}
		f = append(f, bodies[i]...)
		fr[i] = f
		wire = append(wire, f...)
	}
	src := &zzSrc{data: wire, frag: frag, splits: 2, eofWithData: vrt.Choose(2) == 1}
	end := 0
	for i := 0; i < frames; i++ {
		end += len(fr[i])
		ctx := &zzCtx{}
		pv := vrt.Panics(func() { dec.HandleRead(ctx, src) })
		vrt.Assert(pv == nil, "frame-decodes")
		got, ok := zzDrain(ctx.in[0], 16)
		vrt.Assert(ok, "frame-readable")
		zzSameBytes(got, bodies[i], "delivered")
		vrt.Assert(src.off == end, "consumed-exactly-the-frame")
	}
	vrt.Reach("c04-frag-varint-done")
}

// ZZ_C04_Delimiter: encoder + decoder of the delimiter codec, two frames, delimiter of dl bytes.
func ZZ_C04_Delimiter(dl, stripD, frames, carrier, frag int) {
	delim := "\n"
	if dl == 2 {
		delim = "\r\n"
	}
	if dl == 3 {
		delim = "--\n" // repeated leading byte: partial matches inside the payload are legal
	}
	cdc := DelimiterCodec(16, delim, stripD != 0)
	var bodies [2][]byte
	var wire []byte
	for i := 0; i < frames; i++ {
		n := vrt.Choose(4)
		body := vrt.Bytes(n)
		// contract: the delimiter occurs in payload+delimiter only at the very end
		full := append(append([]byte(nil), body...), delim...)
		for e := dl; e < len(full); e++ {
			var diff byte
			for j := 0; j < dl; j++ {
				diff |= full[e-dl+j] ^ delim[j]
			}
			vrt.Assume(diff != 0)
		}
		bodies[i] = body
		ectx := &zzCtx{}
		var msg interface{} = body
		switch carrier {
		case 1:
			msg = string(body)
		case 2:
			msg = bytes.NewBuffer(append([]byte(nil), body...))
		case 3:
			msg = bytes.NewReader(body)
		case 4:
			msg = strings.NewReader(string(body))
		}
		pv := vrt.Panics(func() { cdc.HandleWrite(ectx, msg) })
		vrt.Assert(pv == nil, "encoder-accepts")
		enc, ok := zzFlatten(ectx.out[0], 16)
		vrt.Assert(ok, "encoder-output-type")
		vrt.Assert(len(enc) == n+dl, "encoded-length")
		wire = append(wire, enc...)
	}
	src := &zzSrc{data: wire, frag: frag, splits: 2}
	end := 0
	for i := 0; i < frames; i++ {
		end += len(bodies[i]) + dl
		ctx := &zzCtx{}
		pv := vrt.Panics(func() { cdc.HandleRead(ctx, src) })
		vrt.Assert(pv == nil, "frame-decodes")
		got, ok := zzDrain(ctx.in[0], 16)
		vrt.Assert(ok, "frame-readable")
		want := bodies[i]
		if stripD == 0 {
			want = append(append([]byte(nil), bodies[i]...), delim...)
		}
		zzSameBytes(got, want, "delivered")
		vrt.Assert(src.off == end, "consumed-exactly-the-frame")
	}
	vrt.Reach("c04-delimiter-done")
}

// ZZ_C04_Fixed: fixed-length codec; frames of exactly L bytes, every fragmentation.
func ZZ_C04_Fixed(frames, frag int) {
	L := vrt.Choose(4) + 1
	cdc := FixedLengthCodec(L)
	var bodies [2][]byte
	var wire []byte
	for i := 0; i < frames; i++ {
		body := vrt.Bytes(L)
		bodies[i] = body
		ectx := &zzCtx{}
		cdc.HandleWrite(ectx, body)
		enc, ok := zzFlatten(ectx.out[0], 8)
		vrt.Assert(ok && len(enc) == L, "encoded-length")
		wire = append(wire, enc...)
	}
	src := &zzSrc{data: wire, frag: frag, splits: 2, eofWithData: vrt.Choose(2) == 1}
	for i := 0; i < frames; i++ {
		ctx := &zzCtx{}
		pv := vrt.Panics(func() { cdc.HandleRead(ctx, src) })
		vrt.Assert(pv == nil, "frame-decodes")
		got, ok := zzDrain(ctx.in[0], 8)
		vrt.Assert(ok, "frame-readable")
		zzSameBytes(got, bodies[i], "delivered")
		vrt.Assert(src.off == (i+1)*L, "consumed-exactly-the-frame")
	}
	vrt.Reach("c04-fixed-done")
}

// ZZ_C04_PassThrough: variable-length and packet codecs forward outbound messages untouched and
// deliver inbound bytes in order without loss (their "frames" are whatever one read returns).
func ZZ_C04_PassThrough(kind, frag int) {
	n := vrt.Choose(6) + 1
	data := vrt.Bytes(n)
	src := &zzSrc{data: data, frag: frag, splits: 2}
	var got []byte
	if kind == 0 {
		cdc := VariableLengthCodec(4)
		ectx := &zzCtx{}
		cdc.HandleWrite(ectx, data)
		out, ok := ectx.out[0].([]byte)
		vrt.Assert(ok && len(out) == n, "outbound-untouched")
		for r := 0; r < 8 && len(got) < n; r++ {
			ctx := &zzCtx{}
			pv := vrt.Panics(func() { cdc.HandleRead(ctx, src) })
			vrt.Assert(pv == nil, "read-delivers")
			chunk, ok := zzDrain(ctx.in[0], 8)
			vrt.Assert(ok && len(chunk) >= 1 && len(chunk) <= 4, "chunk-size-bounded")
			got = append(got, chunk...)
		}
	} else {
		cdc := PacketCodec(4)
		ctx := &zzCtx{}
		pv := vrt.Panics(func() { cdc.HandleRead(ctx, io.LimitReader(src, int64(n))) })
		vrt.Assert(pv == nil, "read-delivers")
		chunk, ok := zzDrain(ctx.in[0], 8)
		vrt.Assert(ok, "packet-readable")
		got = chunk
	}
	zzSameBytes(got, data, "stream-preserved")
	vrt.Reach("c04-passthrough-done")
}

// zzWT is a plain io.WriterTo that writes its content in two chunks through one reused buffer
// (what io.Copy-style implementations do).
type zzWT struct{ data []byte }

func (w *zzWT) WriteTo(dst io.Writer) (int64, error) {
	buf := make([]byte, 2)
	var total int64
	for off := 0; off < len(w.data); off += 2 {
		k := copy(buf, w.data[off:])
		n, err := dst.Write(buf[:k])
		total += int64(n)
		if err != nil {
			return total, err
		}
	}
	return total, nil
}

// zzR is a plain io.Reader (no WriterTo) delivering fragments.
type zzR struct{ src zzSrc }

func (r *zzR) Read(p []byte) (int, error) { return r.src.Read(p) }

// ZZ_C04_Carriers: the length-prefixing encoders accept every carrier type and frame its exact content.
func ZZ_C04_Carriers(codecKind, carrier int) {
	n := vrt.Choose(5)
	body := vrt.Bytes(n)
	snapshot := append([]byte(nil), body...)
	var msg interface{}
	switch carrier {
	case 0:
		msg = body
	case 1:
		msg = string(body)
	case 2:
		msg = bytes.NewBuffer(append([]byte(nil), body...))
	case 3:
		msg = bytes.NewReader(body)
	case 4:
		msg = strings.NewReader(string(body))
	case 5:
		msg = &zzR{src: zzSrc{data: body, frag: 1, splits: 2, eofWithData: vrt.Choose(2) == 1}}
	case 6:
		msg = &zzWT{data: body}
	case 7:
		msg = [][]byte{body[:n/2], body[n/2:]}
	}
	vrt.Facet("carrier", carrier)
	ectx := &zzCtx{}
	var hdr int
	var pv interface{}
	if codecKind == 0 {
		enc := LengthFieldPrepender(zzOrder(0), 2, 0, false)
		hdr = 2
		pv = vrt.Panics(func() { enc.HandleWrite(ectx, msg) })
	} else {
		enc := VarintLengthFieldCodec(16)
		hdr = 1
		pv = vrt.Panics(func() { enc.HandleWrite(ectx, msg) })
	}
	vrt.Assert(pv == nil, "encoder-accepts-carrier")
	wire, ok := zzFlatten(ectx.out[0], 16)
	vrt.Assert(ok, "encoder-output-type")
	vrt.Assert(len(wire) == hdr+n, "wire-length")
	vrt.Assert(int(wire[hdr-1]) == n, "header-matches-body")
	zzSameBytes(wire[hdr:], snapshot, "framed-body")
	vrt.Reach("c04-carriers-done")
}

// ZZ_C04_TwoEncodes: two messages are encoded by the same codec instance and both outputs are kept before either is
// used (what a buffering outbound handler does): each must still be a frame whose header agrees with its body.
func ZZ_C04_TwoEncodes(codecKind int) {
	n1 := vrt.Choose(4)
	n2 := 100 + vrt.Choose(200) // a different header length class for the varint codec (>= 128 needs two bytes)
	b1 := vrt.Bytes(n1)
	b2 := vrt.Bytes(n2)
	ectx := &zzCtx{}
	var enc interface {
		HandleWrite(ctx netty.OutboundContext, message netty.Message)
	}
	hdr1, hdr2 := 0, 0
	switch codecKind {
	case 0:
		enc = LengthFieldPrepender(zzOrder(0), 2, 0, false)
		hdr1, hdr2 = 2, 2
	case 1:
		enc = VarintLengthFieldCodec(1024)
		hdr1, hdr2 = 1, 1
		if n2 >= 128 {
			hdr2 = 2
		}
	case 2:
		enc = LengthFieldCodec(zzOrder(1), 1024, 0, 4, 0, 4)
		hdr1, hdr2 = 4, 4
	default:
		enc = DelimiterCodec(1024, "\n", true)
	}
	enc.HandleWrite(ectx, b1)
	enc.HandleWrite(ectx, b2)
	vrt.Assert(len(ectx.out) == 2, "two-messages-forwarded")
	w1, ok1 := zzFlatten(ectx.out[0], 512)
	w2, ok2 := zzFlatten(ectx.out[1], 512)
	vrt.Assert(ok1 && ok2, "encoder-output-type")
	if codecKind == 3 {
		vrt.Assert(len(w1) == n1+1 && len(w2) == n2+1, "retained-wire-length")
		zzSameBytes(w1[:n1], b1, "retained-body-1")
		zzSameBytes(w2[:n2], b2, "retained-body-2")
		vrt.Assert(w1[n1] == '\n' && w2[n2] == '\n', "retained-delimiter")
	} else {
		vrt.Assert(len(w1) == hdr1+n1 && len(w2) == hdr2+n2, "retained-wire-length")
		// header of the first frame still describes the first body
		v1 := 0
		switch codecKind {
		case 0:
			v1 = int(w1[0])<<8 | int(w1[1])
		case 1:
			v1 = int(w1[0])
		case 2:
			v1 = int(w1[0]) | int(w1[1])<<8 | int(w1[2])<<16 | int(w1[3])<<24
		}
		vrt.Assert(v1 == n1, "retained-header-matches-body")
		zzSameBytes(w1[hdr1:], b1, "retained-body-1")
		zzSameBytes(w2[hdr2:], b2, "retained-body-2")
	}
	vrt.Reach("c04-two-encodes-done")
}

// ZZ_C04_AdjacentPayloads: a sequence of two payloads that are adjacent views of one caller-owned array with
// spare capacity behind them (what slicing messages out of one read buffer gives): the encodings, produced one
// after the other, must be the frames of the two payloads as they were before any encoding - an encoder that
// appends to its argument writes into the neighbour.
func ZZ_C04_AdjacentPayloads(codecKind int) {
	n1 := vrt.Choose(3) + 1
	n2 := vrt.Choose(3) + 1
	buf := vrt.Bytes(n1 + n2 + 4)
	snap := append([]byte(nil), buf...)
	p1 := buf[:n1]
	p2 := buf[n1 : n1+n2]
	ectx := &zzCtx{}
	var enc interface {
		HandleWrite(ctx netty.OutboundContext, message netty.Message)
	}
	hdr, tail := 0, 0
	switch codecKind {
	case 0:
		enc = LengthFieldPrepender(zzOrder(0), 2, 0, false)
		hdr = 2
	case 1:
		enc = VarintLengthFieldCodec(1024)
		hdr = 1
	case 2:
		enc = LengthFieldCodec(zzOrder(1), 1024, 0, 4, 0, 4)
		hdr = 4
	case 3:
		enc = DelimiterCodec(1024, "\n", true)
		tail = 1
	case 4:
		enc = DelimiterCodec(1024, "\r\n", false)
		tail = 2
	default:
		enc = FixedLengthCodec(n1)
	}
	enc.HandleWrite(ectx, p1)
	if codecKind <= 4 || n2 == n1 {
		enc.HandleWrite(ectx, p2)
	} else {
		ectx.out = append(ectx.out, p2)
	}
	vrt.Assert(len(ectx.out) == 2, "two-messages-forwarded")
	w1, ok1 := zzFlatten(ectx.out[0], 64)
	w2, ok2 := zzFlatten(ectx.out[1], 64)
	vrt.Assert(ok1 && ok2, "encoder-output-type")
	vrt.Assert(len(w1) == hdr+n1+tail && len(w2) == hdr+n2+tail, "adjacent-wire-length")
	zzSameBytes(w1[hdr:hdr+n1], snap[:n1], "adjacent-body-1")
	zzSameBytes(w2[hdr:hdr+n2], snap[n1:n1+n2], "adjacent-body-2")
	vrt.Reach("c04-adjacent-done")
}
