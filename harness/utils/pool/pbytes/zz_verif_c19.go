package pbytes

import "github.com/go-netty/go-netty/internal/vrt"

// ZZ_C19_Bytes: Put of an arbitrary slice (any capacity, not from the pool) followed by Get(n).
func ZZ_C19_Bytes(max int) {
	p := New(max)
	c := vrt.Int()
	n := vrt.Int()
	vrt.Assume(0 <= c && c <= 1<<40 && 0 <= n && n <= 1<<40)
	foreign := make([]byte, 0, c)
	p.Put(&foreign)
	g := p.Get(n)
	vrt.Assert(g != nil, "get-non-nil")
	vrt.Assert(cap(*g) >= n, "cap>=n")
	if g == &foreign {
		vrt.Reach("c19-bytes-reuse")
	}
	h := p.Get(n)
	vrt.Assert(h != g, "exclusive-ownership")
	vrt.Assert(cap(*h) >= n, "cap>=n-second")
}

// ZZ_C19_BytesDefault: the package-level pool used by the channel.
func ZZ_C19_BytesDefault() {
	c := vrt.Int()
	n := vrt.Int()
	vrt.Assume(0 <= c && c <= 1<<40 && 0 <= n && n <= 1<<40)
	foreign := make([]byte, 0, c)
	Put(&foreign)
	g := Get(n)
	vrt.Assert(cap(*g) >= n, "default-cap>=n")
	vrt.Assert(len(*g) == 0 || g == &foreign, "fresh-buffers-are-empty")
}

// ZZ_C19_ConcurrentGet: one buffer is in the pool; two goroutines Get concurrently: at most one of them receives it.
func ZZ_C19_ConcurrentGet(max, n int) {
	p := New(max)
	seed := p.Get(n)
	p.Put(seed)
	var got [2]*[]byte
	for i := 0; i < 2; i++ {
		i := i
		vrt.Go("g"+string(rune('0'+i)), func() { got[i] = p.Get(n) })
	}
	vrt.Quiesce()
	vrt.Assert(got[0] != nil && got[1] != nil, "get-non-nil")
	vrt.Assert(got[0] != got[1], "exclusive-ownership-under-concurrency")
	vrt.Assert(cap(*got[0]) >= n && cap(*got[1]) >= n, "cap>=n")
	vrt.Reach("c19-concurrent-done")
}
