package netty

import (
	"bytes"
	"context"
	"io"
	"net"
	"time"

	"github.com/go-netty/go-netty/transport"

	"github.com/go-netty/go-netty/internal/vrt"
)

var zzSizes = []int{0, 1, 2, 3, 1023, 1024, 1025, 2047, 2048, 2049, 65536, 65537}

// ZZ_C14_Head: every message type accepted at the head of the pipeline is transmitted byte-exact on a
// synchronous channel; any other type raises an exception and transmits nothing.
//
//	kind: 0 []byte, 1 [][]byte, 2 *bytes.Buffer, 3 io.WriterTo (*bytes.Reader), 4 io.WriterTo (chunked, reused buffer),
//	      5 io.Reader (fragmenting), 6 string (unsupported), 7 int (unsupported), 8 struct (unsupported)
func ZZ_C14_Head(kind, sizeIdx, queue int) {
	n := zzSizes[sizeIdx]
	content := vrt.Bytes(n)
	snapshot := append([]byte(nil), content...)
	tr := newZZTransport()
	probe := &zzProbe{swallowEx: true}
	pl := NewPipeline()
	pl.AddLast(probe)
	ch := zzNewChannel(pl, tr, queue, true)
	var msg Message
	supported := true
	switch kind {
	case 0:
		msg = content
	case 1:
		cut := 0
		if n > 0 {
			cut = vrt.Choose(3) * (n / 2)
			if cut > n {
				cut = n
			}
		}
		msg = [][]byte{content[:cut], content[cut:]}
	case 2:
		msg = bytes.NewBuffer(append([]byte(nil), content...))
	case 3:
		msg = bytes.NewReader(content)
	case 4:
		msg = &zzChunkWT{data: content, chunk: 700}
	case 5:
		msg = &zzFragReader{data: content, splits: 1, eofWithData: vrt.Choose(2) == 1}
	case 6:
		msg, supported = string(content), false
	case 7:
		msg, supported = 7, false
	case 8:
		msg, supported = struct{ A []byte }{content}, false
	}
	vrt.Facet("carrier", kind)
	err := ch.Write(msg)
	vrt.Assert(err == nil, "write-on-open-channel-returns-nil")
	if queue > 0 {
		dead := vrt.Quiesce()
		vrt.Assert(!dead, "sender-finishes")
	}
	if !supported {
		vrt.Assert(len(probe.exceptions) == 1, "unsupported-type-raises-one-exception")
		vrt.Assert(len(tr.log) == 0, "unsupported-type-transmits-nothing")
		vrt.Reach("c14-head-unsupported")
		return
	}
	vrt.Assert(len(probe.exceptions) == 0, "supported-type-no-exception")
	zzSame(tr.log, snapshot, "transmitted")
	vrt.Assert(tr.unflushed == 0, "flushed")
	vrt.Reach("c14-head-done")
}

// zzConn is an in-memory net.Conn recording what the peer receives (used under the real buffered transports).
type zzConn struct {
	received  []byte
	closed    bool
	closes    int
	failWrite bool // every Write fails (a broken connection)
}

func (c *zzConn) Write(p []byte) (int, error) {
	if c.failWrite {
		return 0, zzErrClosed
	}
	c.received = append(c.received, p...)
	return len(p), nil
}
func (c *zzConn) Read(p []byte) (int, error)         { return 0, io.EOF }
func (c *zzConn) Close() error                       { c.closed = true; c.closes++; return nil }
func (c *zzConn) LocalAddr() net.Addr                { return zzAddr{} }
func (c *zzConn) RemoteAddr() net.Addr               { return zzAddr{} }
func (c *zzConn) SetDeadline(time.Time) error        { return nil }
func (c *zzConn) SetReadDeadline(time.Time) error    { return nil }
func (c *zzConn) SetWriteDeadline(time.Time) error   { return nil }

// ZZ_C14_Buffered: messages of different carriers and sizes around the write-buffer size go through the head handler of
// a queued channel that sits on the REAL buffered transport wrappers (transport.NewTransport); the sender runs when the
// harness says so (manual executor), so that several packets are batched. The peer must receive exactly the bytes of
// the messages in order.
func ZZ_C14_Buffered(rsize, wsize, q, pattern int) {
	conn := &zzConn{}
	tr := transport.NewTransport(conn, rsize, wsize)
	pl := NewPipeline()
	probe := &zzProbe{swallowEx: true}
	pl.AddLast(probe)
	ex := &zzManualExecutor{}
	ch := newChannelWith(context.Background(), pl, tr, ex, 1, q, true).(*channel)
	pl.(*pipeline).channel = ch
	ws := wsize
	if ws <= 0 {
		ws = 4
	}
	sizes := []int{1, ws - 1, ws, 2*ws + 1}
	var want []byte
	for i, p := 0, pattern; i < 3; i, p = i+1, p/8 {
		n := sizes[(p%8)%4]
		content := vrt.Bytes(n)
		want = append(want, content...)
		var msg Message = content
		switch (p % 8) / 4 {
		case 1:
			msg = bytes.NewBuffer(append([]byte(nil), content...))
		}
		if i == 2 {
			msg = [][]byte{content[:n/2], content[n/2:]}
		}
		vrt.Assert(ch.Write(msg) == nil, "write-on-open-channel-returns-nil")
		if q == 1 || (pattern/512)%2 == 1 && i == 0 {
			ex.runAll()
		}
	}
	ex.runAll()
	vrt.Assert(len(probe.exceptions) == 0, "supported-type-no-exception")
	zzSame(conn.received, want, "transmitted-through-buffered-transport")
	vrt.Reach("c14-buffered-done")
}
