package sym

import (
	"go/token"
	"fmt"
	"sync"
	"go/types"

	"golang.org/x/tools/go/ssa"
)

type stubFn func(e *Engine, st *State, th *Thread, c *callCtx) Value

// callCtx describes a call being made to a stub.
type callCtx struct {
	fn      *ssa.Function
	args    []Value
	instr   *ssa.Call // nil for defer/go
	isDefer bool
	pushed  bool // the stub pushed a frame; the result will be delivered by ret
}

func (e *Engine) lookupMethod(t types.Type, m *types.Func) *ssa.Function {
	ms := e.Prog.MethodSets.MethodSet(t)
	sel := ms.Lookup(m.Pkg(), m.Name())
	if sel == nil {
		panic(fmt.Sprintf("method %v not found on %v", m, t))
	}
	fn := e.Prog.MethodValue(sel)
	if fn == nil {
		panic(&Unsupported{fmt.Sprintf("abstract method %v on %v", m, t)})
	}
	return fn
}

func (e *Engine) resolveCall(st *State, th *Thread, fr *Frame, cc *ssa.CallCommon) (FuncV, []Value) {
	var args []Value
	var fv FuncV
	if cc.IsInvoke() {
		recv, ok := e.get(st, fr, cc.Value).(IfaceV)
		if !ok {
			panic(&Unsupported{fmt.Sprintf("invoke on %T", e.get(st, fr, cc.Value))})
		}
		if recv.T == nil {
			e.raiseRuntime(st, th, "invalid memory address or nil pointer dereference (method call on nil interface)")
		}
		fv = FuncV{Fn: e.lookupMethod(recv.T, cc.Method)}
		args = make([]Value, 0, len(cc.Args)+1)
		args = append(args, recv.V)
	} else {
		v := e.get(st, fr, cc.Value)
		f, ok := v.(FuncV)
		if !ok {
			panic(&Unsupported{fmt.Sprintf("call of %T", v)})
		}
		fv = f
		args = make([]Value, 0, len(cc.Args))
	}
	for _, a := range cc.Args {
		args = append(args, e.get(st, fr, a))
	}
	return fv, args
}

func (e *Engine) callInstr(st *State, th *Thread, fr *Frame, in *ssa.Call, cc *ssa.CallCommon) {
	if b, ok := cc.Value.(*ssa.Builtin); ok {
		args := make([]Value, len(cc.Args))
		for i, a := range cc.Args {
			args[i] = e.get(st, fr, a)
		}
		res := e.builtin(st, th, fr, b, args, cc, in)
		if res == nil {
			res = TupleV{}
		}
		e.setReg(st, th, in, res)
		e.advance(st, th)
		return
	}
	fv, args := e.resolveCall(st, th, fr, cc)
	e.invoke(st, th, fv, args, in, false)
}

var fnKeyCache sync.Map

func fnKey(fn *ssa.Function) string {
	if v, ok := fnKeyCache.Load(fn); ok {
		return v.(string)
	}
	var s string
	if o := fn.Origin(); o != nil {
		s = o.String()
	} else {
		s = fn.String()
	}
	fnKeyCache.Store(fn, s)
	return s
}

// invoke calls fv with args. instr is the call instruction (nil for defer/go).
func (e *Engine) invoke(st *State, th *Thread, fv FuncV, args []Value, instr *ssa.Call, isDefer bool) {
	if fv.Blt != nil {
		// deferred / go'd builtin
		fr := th.top()
		res := e.builtin(st, th, fr, fv.Blt, args, nil, nil)
		if instr != nil {
			if res == nil {
				res = TupleV{}
			}
			e.setReg(st, th, instr, res)
			e.advance(st, th)
		}
		return
	}
	if fv.Fn == nil {
		e.raiseRuntime(st, th, "invalid memory address or nil pointer dereference (call of nil func)")
	}
	fn := fv.Fn
	key := fnKey(fn)
	if e.inInit && fn.Synthetic == "package initializer" && fn.Pkg != nil && !e.initAllowed(fn.Pkg) {
		if instr != nil {
			e.setReg(st, th, instr, TupleV{})
			e.advance(st, th)
		}
		return
	}
	if r, ok := e.redirect[key]; ok {
		fn = r
		fv = FuncV{Fn: r}
		e.Stubs[key]++
	} else if stub, ok := e.stubTab[key]; ok {
		e.Stubs[key]++
		c := &callCtx{fn: fn, args: args, instr: instr, isDefer: isDefer}
		res := stub(e, st, th, c)
		if c.pushed {
			return
		}
		if instr != nil {
			if res == nil {
				res = TupleV{}
			}
			e.setReg(st, th, instr, res)
			e.advance(st, th)
		}
		return
	}
	if fn.Blocks == nil {
		if e.inInit {
			// tolerated during package initialisation: result is poison
			if instr != nil {
				e.setReg(st, th, instr, e.poisonFor(fn.Signature.Results(), "external "+key))
				e.advance(st, th)
			}
			return
		}
		panic(&Unsupported{"call of function without body: " + key})
	}
	e.pushFrame(st, th, fn, fv.Bind, args, isDefer)
}

func (e *Engine) poisonFor(rs *types.Tuple, why string) Value {
	switch rs.Len() {
	case 0:
		return TupleV{}
	case 1:
		return Poison{why}
	}
	tv := make(TupleV, rs.Len())
	for i := range tv {
		tv[i] = Poison{why}
	}
	return tv
}

func (e *Engine) pushFrame(st *State, th *Thread, fn *ssa.Function, bind, args []Value, isDefer bool) {
	if len(th.Frames) >= e.Cfg.MaxCallDepth {
		panic(&Unsupported{"call depth exceeded in " + fn.String()})
	}
	fi := e.info(fn)
	fr := &Frame{Gen: st.Gen, Fn: fn, Info: fi, Block: fn.Blocks[0], Regs: make([]Value, fi.nregs), IsDefer: isDefer}
	if len(args) != len(fn.Params) {
		panic(fmt.Sprintf("arity mismatch calling %v: %d args for %d params", fn, len(args), len(fn.Params)))
	}
	copy(fr.Regs, args)
	copy(fr.Regs[len(args):], bind)
	th.Frames = append(th.Frames, fr)
}

// ---------------------------------------------------------------------------
// builtins

func (e *Engine) builtin(st *State, th *Thread, fr *Frame, b *ssa.Builtin, args []Value, cc *ssa.CallCommon, in *ssa.Call) Value {
	tb := e.tb
	switch b.Name() {
	case "len":
		switch a := args[0].(type) {
		case SliceV:
			return a.Len
		case StrV:
			return a.Len
		case MapV:
			if a.Obj == 0 {
				return tb.Int64(0)
			}
			if e.Cfg.Race && st.Multi {
				e.hbAccess(st, th, st.obj(a.Obj), Ptr{Obj: a.Obj}, false, token.NoPos) // len(m) reads the map
			}
			return tb.Int64(int64(len(st.obj(a.Obj).Keys)))
		case ChanV:
			if a.Obj == 0 {
				return tb.Int64(0)
			}
			o := st.obj(a.Obj)
			if e.Cfg.Race && st.Multi {
				e.hbChanPeek(st, th, o, a.Obj)
			}
			return tb.Int64(int64(len(o.Buf)))
		case *ArrayV:
			return tb.Int64(int64(len(a.E)))
		case Ptr:
			at := deref(cc.Args[0].Type()).Underlying().(*types.Array)
			return tb.Int64(at.Len())
		}
	case "cap":
		switch a := args[0].(type) {
		case SliceV:
			return a.Cap
		case ChanV:
			if a.Obj == 0 {
				return tb.Int64(0)
			}
			return tb.Int64(int64(st.obj(a.Obj).Cap))
		case *ArrayV:
			return tb.Int64(int64(len(a.E)))
		case Ptr:
			at := deref(cc.Args[0].Type()).Underlying().(*types.Array)
			return tb.Int64(at.Len())
		}
	case "append":
		if _, ok := args[1].(SliceV); ok {
			if s := args[1].(SliceV); s.Obj == 0 && s.Len.IsConst() && s.Len.K == 0 {
				return args[0]
			}
		}
		return e.doAppend(st, th, args[0], args[1], cc.Args[0].Type())
	case "copy":
		return e.doCopy(st, th, args[0], args[1], cc.Args[0].Type())
	case "close":
		e.chanClose(st, th, args[0].(ChanV))
		return nil
	case "delete":
		e.mapDelete(st, th, args[0].(MapV), args[1])
		return nil
	case "print", "println":
		return nil
	case "panic":
		e.raise(st, th, &PanicRec{Val: args[0]})
	case "recover":
		return e.doRecover(st, th)
	case "min", "max":
		t := cc.Args[0].Type()
		r, ok := args[0].(*Term)
		if !ok {
			panic(&Unsupported{"min/max on non-integers"})
		}
		for _, a := range args[1:] {
			x := a.(*Term)
			var lt *Term
			if isSigned(t) {
				lt = tb.SLt(x, r)
			} else {
				lt = tb.ULt(x, r)
			}
			if b.Name() == "min" {
				r = tb.Ite(lt, x, r)
			} else {
				r = tb.Ite(lt, r, x)
			}
		}
		return r
	case "clear":
		switch a := args[0].(type) {
		case MapV:
			if a.Obj != 0 {
				o := st.wobj(a.Obj)
				o.Keys, o.Vals = nil, nil
			}
			return nil
		}
	case "SliceData": // unsafe.SliceData
		if a, ok := args[0].(SliceV); ok {
			if a.Obj == 0 {
				return Ptr{}
			}
			if st.obj(a.Obj).Kind != OBytes {
				panic(&Unsupported{"unsafe.SliceData of a non-byte slice"})
			}
			return Ptr{Obj: a.Obj, Idx: a.Off}
		}
	case "String": // unsafe.String: the result aliases the memory
		if p, ok := args[0].(Ptr); ok {
			n := e.toIndex(args[1], cc.Args[1].Type())
			if p.Obj == 0 {
				return StrV{Arr: tb.ArrZero(), Off: tb.Int64(0), Len: tb.Int64(0)}
			}
			if st.obj(p.Obj).Kind != OBytes {
				panic(&Unsupported{"unsafe.String of a non-byte object"})
			}
			off := p.Idx
			if off == nil {
				off = tb.Int64(0)
			}
			return StrV{Off: off, Len: n, Alias: p.Obj}
		}
	case "StringData": // unsafe.StringData
		if s, ok := args[0].(StrV); ok {
			if s.Alias != 0 {
				return Ptr{Obj: s.Alias, Idx: s.Off}
			}
			id := e.allocBytes(st, tb.ArrCopy(tb.ArrZero(), tb.Int64(0), s.Arr, s.Off, s.Len), s.Len)
			st.Heap[id].Site = "unsafe.StringData"
			return Ptr{Obj: id, Idx: tb.Int64(0)}
		}
	case "Slice": // unsafe.Slice over bytes
		if p, ok := args[0].(Ptr); ok {
			n := e.toIndex(args[1], cc.Args[1].Type())
			if p.Obj == 0 {
				return SliceV{Off: tb.Int64(0), Len: tb.Int64(0), Cap: tb.Int64(0)}
			}
			if st.obj(p.Obj).Kind != OBytes {
				panic(&Unsupported{"unsafe.Slice of a non-byte object"})
			}
			off := p.Idx
			if off == nil {
				off = tb.Int64(0)
			}
			return SliceV{Obj: p.Obj, Off: off, Len: n, Cap: n}
		}
	case "ssa:wrapnilchk":
		if p, ok := args[0].(Ptr); ok && p.Obj == 0 {
			e.raiseRuntime(st, th, "value method called using nil pointer")
		}
		return args[0]
	}
	panic(&Unsupported{fmt.Sprintf("builtin %s on %T", b.Name(), args[0])})
}

func (e *Engine) doRecover(st *State, th *Thread) Value {
	// valid only when called directly by a deferred function whose caller is panicking
	n := len(th.Frames)
	if n >= 2 && th.Frames[n-1].IsDefer && th.Panic != nil {
		parent := th.Frames[n-2]
		if parent.Mode == 2 && !parent.Recovered {
			p := th.Panic
			th.Panic = nil
			// mark parent recovered
			if parent.Gen != st.Gen {
				parent = parent.clone(st.Gen)
				th.Frames[n-2] = parent
			}
			parent.Recovered = true
			if iv, ok := p.Val.(IfaceV); ok {
				return iv
			}
			return IfaceV{}
		}
	}
	return IfaceV{}
}
