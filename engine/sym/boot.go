package sym

import (
	"fmt"
	"strings"

	"golang.org/x/tools/go/ssa"
)

// InitWhitelist: packages whose initialisers are executed (concretely) before a harness runs.
var InitWhitelist = map[string]bool{
	"errors": true, "io": true, "io/ioutil": true, "bytes": true, "bufio": true, "strings": true,
	"encoding/binary": true, "context": true, "unicode/utf8": true, "unicode": false,
}

func (e *Engine) initAllowed(pkg *ssa.Package) bool {
	p := pkg.Pkg.Path()
	if v, ok := InitWhitelist[p]; ok {
		return v
	}
	return strings.HasPrefix(p, e.Cfg.ModulePrefix)
}

// Boot creates the initial state and runs the package initialisers of roots (and their whitelisted imports).
func (e *Engine) Boot(roots []*ssa.Package) (*State, error) {
	st := &State{Gen: e.newGen(), PC: e.tb.True, SPC: e.tb.True, Heap: map[ObjID]*Object{}, Globals: map[*ssa.Global]ObjID{}}
	main := &Thread{ID: 0, Name: "main", Harness: true}
	st.nextTID = 1
	st.Threads = []*Thread{main}
	e.inInit = true
	defer func() { e.inInit = false }()
	// skip initialisers of non-whitelisted packages
	for _, root := range roots {
		initFn := root.Func("init")
		if initFn == nil {
			continue
		}
		main.Status = TRun
		main.Frames = nil
		e.pushFrame(st, main, initFn, nil, nil, false)
		e.work = e.work[:0]
		e.run(st)
		if st.Dead {
			return nil, fmt.Errorf("package initialisation of %s failed: %v", root.Pkg.Path(), e.Incon)
		}
		if len(e.work) > 0 {
			return nil, fmt.Errorf("package initialisation of %s forked", root.Pkg.Path())
		}
		if main.Status != TDone {
			return nil, fmt.Errorf("package initialisation of %s did not finish (status %d, parked %v) at %s", root.Pkg.Path(), main.Status, main.Parked, e.where(main))
		}
	}
	main.Status = TRun
	main.Frames = nil
	main.Panic = nil
	st.Steps = 0
	e.fnCount = map[*ssa.Function]int64{}
	e.Stubs = map[string]int64{}
	e.boot = st
	return st, nil
}

// Start prepares a state that runs harness fn with the given concrete integer arguments.
func (e *Engine) Start(fn *ssa.Function, args []int64) *State {
	st := e.clone(e.boot)
	main := st.Threads[0]
	vals := make([]Value, len(fn.Params))
	for i := range vals {
		var a int64
		if i < len(args) {
			a = args[i]
		}
		vals[i] = e.tb.Const(bvWidth(fn.Params[i].Type()), uint64(a))
	}
	e.pushFrame(st, main, fn, nil, vals, false)
	return st
}
