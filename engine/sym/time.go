package sym

import (
	"go/types"
)

const hasMonotonic = uint64(1) << 63

// clock returns the current symbolic clock (ns).
func (e *Engine) clock(st *State) *Term {
	if st.Clock == nil {
		st.Clock = e.tb.Int64(1 << 40)
	}
	return st.Clock
}

// tick lets an arbitrary non-negative amount of time pass and returns the new clock.
func (e *Engine) tick(st *State) *Term {
	tb := e.tb
	old := e.clock(st)
	if e.Cfg.ConcreteClock {
		return old // time passes only through vrt.Advance, time.Sleep and timer expirations
	}
	st.NFresh++
	c := tb.Var(64, "clk"+itoa(st.NFresh))
	st.PC = tb.And(st.PC, tb.And(tb.SLe(old, c), tb.SLt(c, tb.Int64(1<<60))))
	st.Clock = c
	return c
}

func (e *Engine) timeValue(c *Term) Value {
	return &StructV{F: []Value{e.tb.Const(64, hasMonotonic), c, Ptr{}}}
}

func (e *Engine) findTimer(st *State, p Ptr) int {
	for i := range st.Timers {
		if st.Timers[i].Obj == p.Obj {
			return i
		}
	}
	return -1
}

func (e *Engine) initTimeStubs() {
	tb := e.tb
	e.stub("time.Now", func(e *Engine, st *State, th *Thread, c *callCtx) Value {
		return e.timeValue(e.tick(st))
	})
	e.stub("time.Since", func(e *Engine, st *State, th *Thread, c *callCtx) Value {
		t := c.args[0].(*StructV)
		return tb.Sub(e.tick(st), t.F[1].(*Term))
	})
	e.visible("time.Sleep", func(e *Engine, st *State, th *Thread, c *callCtx) Value {
		d := c.args[0].(*Term)
		if th.OthersStepped {
			th.Sleeps++
			if th.Sleeps > e.Cfg.SpinCut {
				st.cut("cut:spin")
				e.CutsTotal["cut:spin"]++
				e.Stats.CutPaths++
				panic(killPath{"spin cut"})
			}
		}
		if th.OthersStepped {
			th.IdleSleeps = 0
		} else {
			th.IdleSleeps++
			if th.IdleSleeps > 64 {
				e.reportViolation(st, "hang", "a goroutine polls forever (time.Sleep loop) while no other goroutine can make progress: "+e.where(th), nil)
				panic(killPath{"hang"})
			}
		}
		th.OthersStepped = false
		th.HasSlept = true
		if th.Slept == nil {
			th.Slept = tb.Int64(0)
		}
		// accumulated sleep saturates at 4 s (keeps endless poll loops in a finite state space)
		sum := tb.Add(th.Slept, d)
		lim := tb.Int64(4000000000)
		th.Slept = tb.Ite(tb.SLt(sum, lim), sum, lim)
		if len(st.Timers) > 0 || st.Clock != nil {
			st.Clock = tb.Add(e.clock(st), d)
		}
		return nil
	}, func(e *Engine, st *State, th *Thread, args []Value) (bool, string) { return false, "sleep" })
	e.stub("time.AfterFunc", func(e *Engine, st *State, th *Thread, c *callCtx) Value {
		d := c.args[0].(*Term)
		f := c.args[1].(FuncV)
		tt := e.namedType("time", "Timer")
		id := e.allocCells(st, tt, e.zero(tt))
		st.Timers = append(st.Timers, TimerRec{Obj: id, F: f, Armed: true, Deadline: tb.Add(e.clock(st), d)})
		if !e.Cfg.ManualTimers {
			st.Multi = true // timer callbacks run concurrently from now on: visible operations become scheduling points
		}
		if e.Cfg.Race {
			e.hbTimerArm(st, th, id)
		}
		return Ptr{Obj: id}
	})
	e.stub("(*time.Timer).Reset", func(e *Engine, st *State, th *Thread, c *callCtx) Value {
		p := c.args[0].(Ptr)
		d := c.args[1].(*Term)
		i := e.findTimer(st, p)
		if i < 0 {
			panic(&Unsupported{"Reset of a timer not created by time.AfterFunc"})
		}
		st.Timers = append([]TimerRec(nil), st.Timers...)
		was := st.Timers[i].Armed
		st.Timers[i].Armed = true
		st.Timers[i].Deadline = tb.Add(e.clock(st), d)
		if e.Cfg.Race {
			e.hbTimerArm(st, th, p.Obj)
		}
		return tb.Bool(was)
	})
	e.stub("(*time.Timer).Stop", func(e *Engine, st *State, th *Thread, c *callCtx) Value {
		p := c.args[0].(Ptr)
		i := e.findTimer(st, p)
		if i < 0 {
			panic(&Unsupported{"Stop of a timer not created by time.AfterFunc"})
		}
		st.Timers = append([]TimerRec(nil), st.Timers...)
		was := st.Timers[i].Armed
		st.Timers[i].Armed = false
		return tb.Bool(was)
	})
	_ = types.Typ
}

// fireTimer runs the callback of timer i in a new thread, at some instant not before its deadline.
func (e *Engine) fireTimer(st *State, i int) {
	tb := e.tb
	st.Timers = append([]TimerRec(nil), st.Timers...)
	tm := &st.Timers[i]
	tm.Armed = false
	tm.Fires++
	st.TotalFires++
	var c *Term
	if e.Cfg.ConcreteClock {
		c = e.clock(st)
		if c.IsConst() && tm.Deadline.IsConst() && c.Int() < tm.Deadline.Int() {
			c = tm.Deadline
		}
		st.Clock = c
	} else {
		c = e.tick(st)
		st.PC = tb.And(st.PC, tb.SLe(tm.Deadline, c))
	}
	var parent *Thread
	if len(st.Threads) > 0 {
		parent = nil
	}
	nt := e.spawn(st, parent, tm.F, nil, "timer", false)
	nt.IsTimer = true
	nt.FireNo = st.TotalFires
	if e.Cfg.Race {
		e.hbTimerFire(st, nt, tm.Obj)
	}
	st.Cur = len(st.Threads) - 1
	// the new thread starts running immediately (until its first visible operation)
}
