package sym

import (
	"fmt"
	"go/constant"
	"go/token"
	"go/types"
	"strings"

	"golang.org/x/tools/go/ssa"
)

// ---------------------------------------------------------------------------
// operand evaluation

func (e *Engine) get(st *State, fr *Frame, v ssa.Value) Value {
	switch x := v.(type) {
	case *ssa.Const:
		return e.constValue(x)
	case *ssa.Global:
		return Ptr{Obj: e.globalObj(st, x)}
	case *ssa.Function:
		return FuncV{Fn: x}
	case *ssa.Builtin:
		return FuncV{Blt: x}
	}
	i, ok := fr.Info.idx[v]
	if !ok {
		panic(fmt.Sprintf("no register for %v in %v", v, fr.Fn))
	}
	r := fr.Regs[i]
	if r == nil {
		panic(fmt.Sprintf("unset register %s (%T) in %v", v.Name(), v, fr.Fn))
	}
	return r
}

func (e *Engine) setReg(st *State, th *Thread, v ssa.Value, val Value) {
	fr := st.wframe(th)
	fr.Regs[fr.Info.idx[v]] = val
}

func (e *Engine) globalObj(st *State, g *ssa.Global) ObjID {
	if id, ok := st.Globals[g]; ok {
		return id
	}
	t := deref(g.Type())
	id := e.allocFor(st, t, "global "+g.String())
	st.Globals[g] = id
	return id
}

// allocFor allocates a zeroed object for a variable of type t.
func (e *Engine) allocFor(st *State, t types.Type, site string) ObjID {
	if a, ok := t.Underlying().(*types.Array); ok && isByteType(a.Elem()) {
		id := e.allocBytes(st, e.tb.ArrZero(), e.tb.Int64(a.Len()))
		st.Heap[id].Site = site
		st.Heap[id].Typ = t
		return id
	}
	id := e.allocCells(st, t, e.zero(t))
	st.Heap[id].Site = site
	return id
}

func (e *Engine) constValue(c *ssa.Const) Value {
	tb := e.tb
	t := c.Type()
	if c.Value == nil {
		return e.zero(t)
	}
	switch u := t.Underlying().(type) {
	case *types.Basic:
		switch {
		case u.Info()&types.IsBoolean != 0:
			return tb.Bool(constant.BoolVal(c.Value))
		case u.Info()&types.IsInteger != 0:
			w := bvWidth(t)
			if i, ok := constant.Int64Val(constant.ToInt(c.Value)); ok {
				return tb.Const(w, uint64(i))
			}
			if i, ok := constant.Uint64Val(constant.ToInt(c.Value)); ok {
				return tb.Const(w, i)
			}
			panic(&Unsupported{"big integer constant"})
		case u.Info()&types.IsString != 0:
			s := constant.StringVal(c.Value)
			return StrV{Arr: tb.ArrLit(s), Off: tb.Int64(0), Len: tb.Int64(int64(len(s)))}
		case u.Info()&(types.IsFloat|types.IsComplex) != 0:
			return Poison{"float constant"}
		}
	}
	// typeparam / other
	panic(&Unsupported{fmt.Sprintf("constant of type %v", t)})
}

// ---------------------------------------------------------------------------
// main loop

// run executes the current thread until it parks, finishes, or the path dies.
func (e *Engine) run(st *State) {
	defer func() {
		if r := recover(); r != nil {
			switch x := r.(type) {
			case killPath:
				st.Dead = true
				e.Stats.Killed++
			case *Unsupported:
				th := st.thread()
				e.inconclusive("%v at %s", x.Error(), e.where(th))
				st.Dead = true
			default:
				th := st.thread()
				ins := ""
				if fr := th.top(); fr != nil && fr.Mode == 0 && fr.IP < len(fr.Block.Instrs) {
					ins = fr.Block.Instrs[fr.IP].String()
				}
				panic(fmt.Sprintf("%v\n  while executing %q at %s", r, ins, e.where(th)))
			}
		}
	}()
	for {
		if !e.runInner(st) {
			return
		}
	}
}

// runInner runs until park/finish (returns false) or a Go-level unwind restart (returns true).
func (e *Engine) runInner(st *State) (again bool) {
	defer func() {
		if r := recover(); r != nil {
			if _, ok := r.(ctlUnwind); ok {
				st.forced = nil
				st.thread().Granted = false
				again = true
				return
			}
			if _, ok := r.(ctlPark); ok {
				st.forced = nil
				again = false
				return
			}
			if _, isKill := r.(killPath); e.inInit && !isKill {
				u, ok := r.(*Unsupported)
				if !ok {
					u = &Unsupported{fmt.Sprint(r)}
				}
				// tolerated during package initialisation: the instruction yields poison
				th := st.thread()
				if fr := th.top(); fr != nil && fr.Mode == 0 {
					instr := fr.Block.Instrs[fr.IP]
					_, isStore := instr.(*ssa.Store)
					if v, ok := instr.(ssa.Value); ok || isStore {
						if ok {
							e.setReg(st, th, v, Poison{u.Why})
						}
						e.advance(st, th)
						st.forced = nil
						again = true
						return
					}
				}
			}
			panic(r)
		}
	}()
	for {
		th := st.thread()
		if st.Dead || th.Status != TRun {
			return false
		}
		fr := th.top()
		if fr == nil {
			th.Status = TDone
			return false
		}
		st.Steps++
		e.Stats.Instrs++
		st.snapNondet, st.snapFresh, st.snapObj, st.snapLog, st.snapFacets, st.snapEnv = th.NNondet, st.NFresh, st.NextObj, st.Log, st.Facets, st.EnvChoices
		if st.Steps > e.Cfg.MaxSteps {
			if e.Cfg.BudgetViolation {
				e.reportViolation(st, "no-progress-loop", "instruction budget exhausted (loop without consuming input?) at "+e.where(th), nil)
			} else {
				e.inconclusive("instruction budget exceeded (unwinding failure) at %s", e.where(th))
			}
			st.Dead = true
			return false
		}
		if fr.Mode != 0 {
			if e.deferStep(st, th, fr) {
				return false
			}
			st.forced = nil
			continue
		}
		instr := fr.Block.Instrs[fr.IP]
		if th.ParkNext && st.Multi && th.NoPreempt == 0 && !th.Granted {
			th.ParkNext = false
			th.Parked = true
			return false
		}
		if st.Multi && th.NoPreempt == 0 && !th.Granted && e.isVisible(st, th, fr, instr) {
			th.Parked = true
			return false
		}
		if e.Cfg.Trace {
			e.traceInstr(st, th, fr, instr)
		}
		e.exec(st, th, fr, instr)
		st.forced = nil
		th.Granted = false
	}
}

func (e *Engine) traceInstr(st *State, th *Thread, fr *Frame, instr ssa.Instruction) {
	if e.Cfg.TraceFilter != "" && !strings.Contains(fr.Fn.String(), e.Cfg.TraceFilter) {
		return
	}
	s := instr.String()
	if v, ok := instr.(ssa.Value); ok {
		s = v.Name() + " = " + s
	}
	fmt.Printf("[t%d d%d] %s: %s   @%s\n", st.Cur, len(th.Frames), fr.Fn.String(), s, e.posStr(instr.Pos()))
}

func (e *Engine) advance(st *State, th *Thread) {
	fr := st.wframe(th)
	fr.IP++
}

func (e *Engine) jump(st *State, th *Thread, to *ssa.BasicBlock) {
	fr := st.wframe(th)
	fr.PrevBlock = fr.Block
	fr.Block = to
	fr.IP = 0
}

// exec executes one instruction of the top frame.
func (e *Engine) exec(st *State, th *Thread, fr *Frame, instr ssa.Instruction) {
	tb := e.tb
	e.fnCount[fr.Fn]++
	switch in := instr.(type) {
	case *ssa.DebugRef:
		e.advance(st, th)
	case *ssa.Alloc:
		t := deref(in.Type())
		site := ""
		if in.Heap || true {
			site = e.posStr(in.Pos())
		}
		id := e.allocFor(st, t, site)
		if fr.Info.harness {
			st.Heap[id].Harness = true
		}
		e.setReg(st, th, in, Ptr{Obj: id})
		e.advance(st, th)
	case *ssa.Phi:
		// all phis of a block are evaluated in parallel w.r.t. the previous block
		blk := fr.Block
		pi := -1
		for i, p := range blk.Preds {
			if p == fr.PrevBlock {
				pi = i
				break
			}
		}
		if pi < 0 {
			panic("phi: predecessor not found")
		}
		var phis []*ssa.Phi
		var vals []Value
		for i := fr.IP; i < len(blk.Instrs); i++ {
			p, ok := blk.Instrs[i].(*ssa.Phi)
			if !ok {
				break
			}
			phis = append(phis, p)
			vals = append(vals, e.get(st, fr, p.Edges[pi]))
		}
		w := st.wframe(th)
		for i, p := range phis {
			w.Regs[w.Info.idx[p]] = vals[i]
		}
		w.IP += len(phis)
	case *ssa.BinOp:
		x := e.get(st, fr, in.X)
		y := e.get(st, fr, in.Y)
		r := e.binop(st, th, in.Op, in.X.Type(), in.Y.Type(), x, y, in)
		e.setReg(st, th, in, r)
		e.advance(st, th)
	case *ssa.UnOp:
		e.unop(st, th, fr, in)
	case *ssa.Call:
		e.callInstr(st, th, fr, in, &in.Call)
	case *ssa.ChangeInterface:
		e.setReg(st, th, in, e.get(st, fr, in.X))
		e.advance(st, th)
	case *ssa.ChangeType:
		e.setReg(st, th, in, e.get(st, fr, in.X))
		e.advance(st, th)
	case *ssa.Convert:
		e.setReg(st, th, in, e.convert(st, th, in.X.Type(), in.Type(), e.get(st, fr, in.X)))
		e.advance(st, th)
	case *ssa.MultiConvert:
		e.setReg(st, th, in, e.convert(st, th, in.X.Type(), in.Type(), e.get(st, fr, in.X)))
		e.advance(st, th)
	case *ssa.MakeInterface:
		e.setReg(st, th, in, IfaceV{T: in.X.Type(), V: e.get(st, fr, in.X)})
		e.advance(st, th)
	case *ssa.Extract:
		tv := e.get(st, fr, in.Tuple).(TupleV)
		e.setReg(st, th, in, tv[in.Index])
		e.advance(st, th)
	case *ssa.Field:
		sv := e.get(st, fr, in.X).(*StructV)
		e.setReg(st, th, in, sv.F[in.Field])
		e.advance(st, th)
	case *ssa.FieldAddr:
		p := e.resolvePtr(st, e.get(st, fr, in.X).(Ptr))
		if p.Obj == 0 {
			e.raiseRuntime(st, th, "invalid memory address or nil pointer dereference")
		}
		e.setReg(st, th, in, Ptr{Obj: p.Obj, Path: pathAppend(p.Path, in.Field)})
		e.advance(st, th)
	case *ssa.Index:
		e.execIndex(st, th, fr, in)
	case *ssa.IndexAddr:
		e.execIndexAddr(st, th, fr, in)
	case *ssa.Lookup:
		e.execLookup(st, th, fr, in)
	case *ssa.Slice:
		e.execSlice(st, th, fr, in)
	case *ssa.SliceToArrayPointer:
		panic(&Unsupported{"SliceToArrayPointer"})
	case *ssa.MakeSlice:
		e.execMakeSlice(st, th, fr, in)
	case *ssa.MakeMap:
		id := st.newObj(&Object{Kind: OMap, Typ: in.Type(), Harness: fr.Info.harness, Site: e.posStr(in.Pos())})
		e.setReg(st, th, in, MapV{Obj: id})
		e.advance(st, th)
	case *ssa.MakeChan:
		sz := e.get(st, fr, in.Size).(*Term)
		n := e.concretize(st, sz, "chan size")
		id := st.newObj(&Object{Kind: OChan, Typ: in.Type(), Cap: int(n), Harness: fr.Info.harness, Site: e.posStr(in.Pos())})
		e.setReg(st, th, in, ChanV{Obj: id})
		e.advance(st, th)
	case *ssa.MakeClosure:
		fn := in.Fn.(*ssa.Function)
		b := make([]Value, len(in.Bindings))
		for i, bv := range in.Bindings {
			b[i] = e.get(st, fr, bv)
		}
		e.setReg(st, th, in, FuncV{Fn: fn, Bind: b})
		e.advance(st, th)
	case *ssa.Store:
		p := e.get(st, fr, in.Addr).(Ptr)
		v := e.get(st, fr, in.Val)
		e.store(st, th, p, v, in.Pos())
		e.advance(st, th)
	case *ssa.MapUpdate:
		m := e.get(st, fr, in.Map).(MapV)
		k := e.get(st, fr, in.Key)
		v := e.get(st, fr, in.Value)
		e.mapUpdate(st, th, m, k, v)
		e.advance(st, th)
	case *ssa.TypeAssert:
		e.execTypeAssert(st, th, fr, in)
	case *ssa.If:
		c := e.get(st, fr, in.Cond).(*Term)
		if e.decide(st, c) {
			e.jump(st, th, fr.Block.Succs[0])
		} else {
			e.jump(st, th, fr.Block.Succs[1])
		}
	case *ssa.Jump:
		e.jump(st, th, fr.Block.Succs[0])
	case *ssa.Return:
		var res Value
		switch len(in.Results) {
		case 0:
		case 1:
			res = e.get(st, fr, in.Results[0])
		default:
			tv := make(TupleV, len(in.Results))
			for i, r := range in.Results {
				tv[i] = e.get(st, fr, r)
			}
			res = tv
		}
		e.ret(st, th, res)
	case *ssa.RunDefers:
		w := st.wframe(th)
		w.Mode = 1
	case *ssa.Panic:
		v := e.get(st, fr, in.X)
		e.raise(st, th, &PanicRec{Val: v})
	case *ssa.Defer:
		fn, args := e.resolveCall(st, th, fr, &in.Call)
		w := st.wframe(th)
		w.Defers = append(w.Defers, DeferRec{Fn: fn, Args: args, Pos: in.Pos()})
		w.IP++
	case *ssa.Go:
		fn, args := e.resolveCall(st, th, fr, &in.Call)
		e.spawn(st, th, fn, args, "g@"+e.posStr(in.Pos()), false)
		e.advance(st, th)
	case *ssa.Send:
		e.execSend(st, th, fr, in)
	case *ssa.Select:
		e.execSelect(st, th, fr, in)
	case *ssa.Range:
		e.execRange(st, th, fr, in)
	case *ssa.Next:
		e.execNext(st, th, fr, in)
	default:
		panic(&Unsupported{fmt.Sprintf("instruction %T", instr)})
	}
	_ = tb
}

// ---------------------------------------------------------------------------
// panics

var _ = token.NoPos

// raise starts unwinding with the given panic; does not return.
func (e *Engine) raise(st *State, th *Thread, p *PanicRec) {
	th.Panic = p
	fr := st.wframe(th)
	fr.Mode = 2
	fr.Recovered = false
	panic(ctlUnwind{})
}

func (e *Engine) raiseRuntime(st *State, th *Thread, msg string) {
	val := IfaceV{T: e.runtimeErrorType(), V: StrV{Arr: e.tb.ArrLit(msg), Off: e.tb.Int64(0), Len: e.tb.Int64(int64(len(msg)))}}
	e.raise(st, th, &PanicRec{Val: val, Runtime: true, Why: msg})
}

func (e *Engine) runtimeErrorType() types.Type {
	if e.rtErrString != nil {
		return e.rtErrString
	}
	pkg := e.Prog.ImportedPackage("runtime")
	if pkg == nil {
		panic(&Unsupported{"package runtime not loaded"})
	}
	obj := pkg.Pkg.Scope().Lookup("errorString")
	e.rtErrString = obj.Type()
	return e.rtErrString
}

// deferStep advances the defer/unwind machine of the top frame. Returns true if the thread parked.
func (e *Engine) deferStep(st *State, th *Thread, fr *Frame) bool {
	if len(fr.Defers) > 0 {
		d := fr.Defers[len(fr.Defers)-1]
		// visible deferred call?
		if st.Multi && th.NoPreempt == 0 && !th.Granted && e.isVisibleCall(st, th, d.Fn, d.Args) {
			th.Parked = true
			return true
		}
		w := st.wframe(th)
		w.Defers = w.Defers[:len(w.Defers)-1]
		e.invoke(st, th, d.Fn, d.Args, nil, true)
		th.Granted = false
		return false
	}
	// no more deferred calls
	w := st.wframe(th)
	if w.Mode == 1 {
		w.Mode = 0
		w.IP++
		return false
	}
	// Mode 2: unwinding
	if th.Panic == nil || w.Recovered {
		// recovered: function returns normally through the Recover block
		w.Mode = 0
		w.Recovered = false
		if w.Fn.Recover != nil {
			w.PrevBlock = w.Block
			w.Block = w.Fn.Recover
			w.IP = 0
			return false
		}
		// return zero values
		var res Value
		rs := w.Fn.Signature.Results()
		switch rs.Len() {
		case 0:
		case 1:
			res = e.zero(rs.At(0).Type())
		default:
			res = e.zero(rs)
		}
		e.ret(st, th, res)
		return false
	}
	// still panicking: pop this frame and continue unwinding in the caller
	isDefer := w.IsDefer
	th.Frames = th.Frames[:len(th.Frames)-1]
	_ = isDefer
	if len(th.Frames) == 0 {
		th.Status = TCrashed
		e.threadCrashed(st, th)
		return false
	}
	c := st.wframe(th)
	if c.Mode == 0 {
		c.Mode = 2
		c.Recovered = false
	} else {
		// caller was already running defers (this frame was one of its deferred calls):
		// the new panic replaces the old one; continue its defer loop in unwinding mode
		c.Mode = 2
		c.Recovered = false
	}
	return false
}

// ret returns from the top frame with result res.
func (e *Engine) ret(st *State, th *Thread, res Value) {
	fr := th.top()
	isDefer := fr.IsDefer
	th.Frames = th.Frames[:len(th.Frames)-1]
	if len(th.Frames) == 0 {
		th.Status = TDone
		if e.Cfg.Race && th.VC != nil {
			st.DoneVC = vcJoin(st.DoneVC, th.VC)
		}
		return
	}
	if isDefer {
		return // caller continues its defer loop
	}
	c := st.wframe(th)
	call := c.Block.Instrs[c.IP]
	if v, ok := call.(*ssa.Call); ok {
		if res == nil {
			res = TupleV{}
		}
		c.Regs[c.Info.idx[v]] = res
	}
	c.IP++
}

// ---------------------------------------------------------------------------
// threads

func (e *Engine) spawn(st *State, th *Thread, fn FuncV, args []Value, name string, harness bool) *Thread {
	nt := &Thread{ID: st.nextTID, Name: name, Harness: harness}
	st.nextTID++
	if e.Cfg.Race {
		nt.VC = e.hbFork(st, th, nt)
	}
	st.Threads = append(st.Threads, nt)
	st.Multi = true
	// push the frame on the new thread
	cur := st.Cur
	st.Cur = len(st.Threads) - 1
	e.invoke(st, nt, fn, args, nil, false)
	st.Cur = cur
	return nt
}

func (e *Engine) threadCrashed(st *State, th *Thread) {
	why := "panic"
	if th.Panic != nil {
		why = e.describePanic(st, th.Panic)
	}
	if th.Harness || st.Cur == 0 && th.ID == 0 {
		// a panic escaping a harness thread: harness error unless it is the subject (harness uses vrt.Panics)
		e.reportViolation(st, "uncaught-panic-in-harness-thread", why, nil)
	} else {
		e.reportViolation(st, "uncaught-panic", "goroutine "+th.Name+" would terminate the process: "+why, nil)
	}
}

func (e *Engine) describePanic(st *State, p *PanicRec) string {
	if p.Runtime {
		return "runtime error: " + p.Why
	}
	if iv, ok := p.Val.(IfaceV); ok {
		if iv.T == nil {
			return "panic(nil)"
		}
		if s, ok := iv.V.(StrV); ok {
			if cs, ok := s.constString(); ok {
				return fmt.Sprintf("panic(%q)", cs)
			}
		}
		return fmt.Sprintf("panic(%v)", iv.T)
	}
	return "panic"
}
