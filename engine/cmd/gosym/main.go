package main

import (
	"os"

	"verif/engine/driver"
)

func main() {
	os.Exit(driver.Main(os.Args[1:]))
}
