package driver

// Spec describes the check of one property.
type Spec struct {
	Jobs        func(tier string) []*Job
	MustReach   []string
	Bounds      map[string]string
	Outside     string
	Assumptions []string
	Witness     int
	Labels      func(label string) bool // which assertion labels belong to this property (nil = all)
}

func (s *Spec) maxWitness(tier string) int {
	if s.Witness > 0 {
		return s.Witness
	}
	if tier == "quick" {
		return 4
	}
	return 12
}

var commonAssumptions = []string{
	"go/ssa (x/tools v0.29.0) builds the SSA of /repo's working tree faithfully; the gosym engine implements its instruction semantics (validated by native replay of witness inputs on every run)",
	"z3 4.8.12 answers are correct (thorough tier cross-checks on demand)",
}

var Specs = map[string]*Spec{}

func jobsBy(quick, thorough []*Job) func(string) []*Job {
	return func(tier string) []*Job {
		if tier == "quick" {
			return quick
		}
		return append(append([]*Job{}, quick...), thorough...)
	}
}
