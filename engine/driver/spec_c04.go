package driver

func init() {
	var quick, thorough []*Job
	P := "codec/frame"
	add := func(list *[]*Job, fn string, bounds string, args ...int64) {
		*list = append(*list, &Job{Pkg: P, Func: fn, Args: args, Bounds: bounds})
	}
	bPre := "body length n: every value in [0,2^33] when the header is stripped, [0,600] when it is delivered with the body (symbolic), adjustment in [-4,4] (symbolic), contents symbolic"
	for _, w := range []int64{1, 2, 4, 8} {
		for _, order := range []int64{0, 1} {
			for _, incl := range []int64{0, 1} {
				for _, strip := range []int64{0, 1} {
					l := &thorough
					if (order == incl) && (strip != incl) {
						l = &quick
					}
					add(l, "ZZ_C04_Prepender", bPre, w, order, incl, strip)
				}
			}
			l := &thorough
			if order == (w/2)%2 {
				l = &quick
			}
			add(l, "ZZ_C04_LengthFieldCodec", "n in [0,2^33], max in [w,2^40] with n+w<=max (symbolic)", w, order)
		}
	}
	add(&quick, "ZZ_C04_Varint", "n in [0,2^33], max in [1,2^40] (symbolic)")
	bFrag := "body lengths 0..3 (case-split), contents symbolic, wire read with <=2 arbitrary split points (frag=1) or byte by byte (frag=2), last fragment with or without io.EOF"
	// (w, order, off, strip, adj, frames, frag)
	for _, c := range [][]int64{{1, 0, 0, 1, 0, 2, 1}, {2, 1, 1, 0, 0, 2, 1}, {2, 0, 0, 2, -1, 2, 1}, {4, 1, 2, 3, 1, 1, 2}, {8, 0, 0, 8, 0, 1, 1}, {2, 1, 2, 4, -2, 2, 2},
		{2, 0, 0, 4, 2, 2, 1}, {1, 1, 0, 2, 1, 2, 2}, {2, 1, 1, 4, 1, 2, 1}} { // the last three strip past the length field into the (guaranteed) rest of the frame
		add(&quick, "ZZ_C04_FragLengthField", bFrag, c...)
	}
	for _, w := range []int64{1, 2, 4, 8} {
		for _, off := range []int64{0, 1, 2} {
			for _, adj := range []int64{-2, 0, 1, 2} {
				for _, frag := range []int64{1, 2} {
					strip := int64(0)
					if (off+adj+frag)%2 == 0 {
						strip = off + w
					}
					frames := int64(2)
					if w == 8 && frag == 1 {
						frames = 1
					}
					add(&thorough, "ZZ_C04_FragLengthField", bFrag, w, (off+adj+4)%2, off, strip, adj, frames, frag)
				}
			}
		}
	}
	for _, c := range [][]int64{{2, 0, 1}, {1, 1, 2}, {2, 1, 1}} {
		add(&quick, "ZZ_C04_FragVarint", bFrag, c...)
	}
	for _, c := range [][]int64{{2, 0, 2}, {2, 1, 2}, {1, 0, 1}} {
		add(&thorough, "ZZ_C04_FragVarint", bFrag, c...)
	}
	// (dl, stripD, frames, carrier, frag)
	for _, c := range [][]int64{{1, 1, 2, 0, 1}, {2, 0, 2, 1, 1}, {2, 1, 2, 3, 2}, {1, 0, 1, 2, 1}, {2, 1, 1, 4, 1}} {
		add(&quick, "ZZ_C04_Delimiter", bFrag+"; delimiter \\n or \\r\\n; payload bytes differ from delimiter bytes (codec contract)", c...)
	}
	for _, dl := range []int64{1, 2} {
		for _, sd := range []int64{0, 1} {
			for carrier := int64(0); carrier < 5; carrier++ {
				for _, frag := range []int64{1, 2} {
					add(&thorough, "ZZ_C04_Delimiter", bFrag, dl, sd, 2, carrier, frag)
				}
			}
		}
	}
	add(&quick, "ZZ_C04_Delimiter", bFrag+"; 3-byte delimiter with a repeated leading byte, payloads may contain partial matches", 3, 1, 2, 0, 1)
	add(&quick, "ZZ_C04_Delimiter", bFrag, 3, 0, 2, 3, 2)
	add(&thorough, "ZZ_C04_Delimiter", bFrag, 3, 1, 2, 1, 2)
	for k := int64(0); k < 4; k++ {
		add(&quick, "ZZ_C04_TwoEncodes", "two encodes by one codec instance, outputs retained; body lengths 0..3 and 100..299", k)
	}
	for k := int64(0); k <= 5; k++ {
		add(&quick, "ZZ_C04_AdjacentPayloads", "two payloads of 1..3 bytes that are adjacent views of one array with spare capacity, encoded one after the other by each encoder", k)
	}
	for _, c := range [][]int64{{2, 1}, {2, 2}} {
		add(&quick, "ZZ_C04_Fixed", "fixed length 1..4 (case-split), two frames, "+bFrag, c...)
	}
	for _, c := range [][]int64{{0, 1}, {1, 1}, {0, 2}, {1, 2}} {
		add(&quick, "ZZ_C04_PassThrough", "1..6 bytes", c...)
	}
	for kind := int64(0); kind < 2; kind++ {
		for carrier := int64(0); carrier < 8; carrier++ {
			add(&quick, "ZZ_C04_Carriers", "body 0..4 bytes (case-split), contents symbolic; carriers []byte,string,*bytes.Buffer,*bytes.Reader,*strings.Reader,io.Reader,io.WriterTo,[][]byte", kind, carrier)
		}
	}
	Specs["C04"] = &Spec{
		Jobs: jobsBy(quick, thorough),
		MustReach: []string{"c04-encoder-rejects", "c04-roundtrip", "c04-codec-roundtrip", "c04-varint-roundtrip", "c04-varint-encoder-rejects",
			"c04-frag-lengthfield-done", "c04-frag-varint-done", "c04-delimiter-done", "c04-fixed-done", "c04-passthrough-done", "c04-carriers-done", "c04-two-encodes-done", "c04-adjacent-done"},
		Bounds: map[string]string{
			"quick":    "boundary family: length-field widths 1/2/4/8, both byte orders, includes-length on/off, strip on/off, body length symbolic over [0,2^33] (crosses 2^8, 2^16, 2^32; [0,600] in the configurations that deliver the header with the body), adjustment symbolic in [-4,4], varint max symbolic in [1,2^40]; fragmentation family: bodies of 0..3 bytes, up to two frames back to back, every fragmentation with at most two short reads at arbitrary positions plus the all-single-byte fragmentation, final fragment with and without io.EOF, decoder offsets 0..2, strips 0..header, adjustments -2..2 on 6 configurations; delimiter (1 and 2 bytes), fixed length 1..4, variable-length and packet codecs; 8 carrier types into both length-prefixing encoders",
			"thorough": "as quick plus all 32 prepender configurations, all 8 codec configurations, 96 fragmentation configurations of the length-field decoder, all delimiter/carrier/strip combinations",
		},
		Outside: "bodies longer than 3 bytes in the fragmentation family; more than two short reads per wire (other than all-1-byte); more than two frames (decoders keep no state between frames); delimiters longer than 2 bytes; delimiter-codec input whose last byte arrives together with io.EOF; payloads the codec contract does not admit (larger than maxFrameLength, containing the delimiter)",
		Assumptions: append([]string{
			"sync.Pool (io.Discard's buffer pool) modelled as always empty; fmt.Errorf messages opaque (wrapping preserved)",
		}, commonAssumptions...),
	}
}
