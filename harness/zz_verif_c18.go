package netty

import (
	"context"
	"time"

	"github.com/go-netty/go-netty/internal/vrt"
)

// zzParkExecutor never runs the actions it is given (a sender that never starts).
type zzParkExecutor struct{ parked int }

func (e *zzParkExecutor) Exec(Action) { e.parked++ }

// ZZ_C18_NonBlockingExact: non-blocking mode with a sender that never dequeues: the k-th call fails iff k > Q,
// and no call ever waits (the harness thread would be reported as blocked).
//
//	ctxKind: 0 context.Background, 1 a context with a far deadline, 2 a cancellable context that is not cancelled
func ZZ_C18_NonBlockingExact(q, entry, ctxKind int) {
	ctx := context.Background()
	switch ctxKind {
	case 1:
		c, cancel := context.WithTimeout(context.Background(), time.Hour)
		defer cancel()
		ctx = c
	case 2:
		c, cancel := context.WithCancel(context.Background())
		defer cancel()
		ctx = c
	}
	tr := newZZTransport()
	pl := NewPipeline()
	ex := &zzParkExecutor{}
	ch := newChannelWith(context.Background(), pl, tr, ex, 1, q, false).(*channel)
	pl.(*pipeline).channel = ch
	for k := 1; k <= q+2; k++ {
		n, err := zzCall(ch, (entry+k)%8, ctx, []byte{byte(k), 0x11})
		if k <= q {
			vrt.Assert(err == nil && n == 2, "c18-accepts-while-queue-has-room")
		} else {
			vrt.Assert(err == ErrAsyncNoSpace && n == 0, "c18-queue-full-error-when-full")
		}
	}
	vrt.Assert(len(ch.writeQueue) == q, "c18-queue-holds-exactly-q")
	vrt.Assert(len(tr.log) == 0, "c18-nothing-sent-without-sender")
	vrt.Reach("c18-nonblocking-exact-done")
}

// ZZ_C18_NonBlockingLive: non-blocking mode with a live sender: when the total number of writes does not
// exceed Q no call fails, whatever the schedule; no call ever waits.
func ZZ_C18_NonBlockingLive(q, nw, entries int) {
	tr := newZZTransport()
	pl := NewPipeline()
	ch := zzNewChannel(pl, tr, q, false)
	fails := 0
	for w := 0; w < nw; w++ {
		w := w
		entry := entries
		for i := 0; i < w; i++ {
			entry /= 8
		}
		entry %= 8
		vrt.Go("w"+string(rune('0'+w)), func() {
			n, err := zzCall(ch, entry, context.Background(), []byte{byte(w + 1), 0x22})
			if err != nil {
				fails++
				vrt.Assert(err == ErrAsyncNoSpace && n == 0, "c18-only-queue-full-fails")
			}
			if nw <= q {
				vrt.Assert(err == nil, "c18-no-failure-while-queue-cannot-be-full")
			}
		})
	}
	dead := vrt.Quiesce()
	vrt.Assert(!dead, "c18-nonblocking-never-waits")
	vrt.Assert(tr.buffers == nw-fails, "c18-accepted-payloads-sent")
	vrt.Reach("c18-nonblocking-live-done")
}

// ZZ_C18_Blocking: blocking mode with a stalled sender.
//
//	scenario 0: space appears (the sender resumes)      -> the waiting call succeeds and its payload is sent
//	scenario 1: the caller's context is already cancelled -> an error transmits nothing, success transmits the payload
//	scenario 2: the caller's context is cancelled while the call waits -> ctx error, nothing transmitted
//	scenario 4: Close is pending (it waits for the stalled sender) when the caller's context ends -> released at once
//	scenario 3: Close arrives while the call waits       -> an error is non-nil and nothing of that payload is transmitted
func ZZ_C18_Blocking(q, scenario, entry int) {
	tr := newZZTransport()
	tr.gate = make(chan struct{})
	pl := NewPipeline()
	ch := zzNewChannel(pl, tr, q, true)
	batch := q/2 + 1
	accepted := 0
	// fill: the sender takes `batch` packets and stalls in Writev; q more fill the queue
	fill := q + batch
	filler := func() {
		for k := 0; k < fill; k++ {
			n, err := ch.Write1([]byte{byte(k + 1), 0x33})
			if err != nil {
				// only a Close issued while this call was waiting may fail it
				vrt.Assert((scenario == 3 || scenario == 4) && err == zzErrUserClose && n == 0, "c18-blocking-fails-only-on-close")
				return
			}
			vrt.Assert(n == 2, "c18-blocking-accepts-when-space")
			accepted++
			vrt.Assert(accepted-tr.buffers <= q+batch, "c18-accepted-unsent-bounded")
		}
	}
	vrt.Go("filler", filler)
	dead := vrt.Quiesce()
	vrt.Assert(dead, "c18-sender-is-stalled")
	vrt.Assert(len(ch.writeQueue) == q, "c18-queue-is-full-behind-a-stalled-sender")
	ctx, cancel := context.WithCancel(context.Background())
	if scenario == 1 {
		cancel()
	}
	var wn int64
	var werr error
	returned := false
	vrt.Go("waiter", func() {
		useEntry := entry
		if scenario == 1 || scenario == 2 || scenario == 4 {
			useEntry = 2 + entry%2 // the Ctx* variants take the caller's context
		}
		wn, werr = zzCall(ch, useEntry, ctx, []byte{0x7f, 0x44})
		returned = true
		if werr == nil {
			accepted++
		}
	})
	dead = vrt.Quiesce()
	if scenario != 1 {
		vrt.Assert(!returned, "c18-blocking-call-waits-for-space")
		vrt.Reach("c18-waiter-parked")
	}
	switch scenario {
	case 2:
		cancel()
	case 3:
		vrt.Go("closer", func() { ch.Close(zzErrUserClose) })
	}
	if scenario == 2 {
		vrt.Quiesce()
		vrt.Assert(returned && werr != nil && wn == 0, "c18-context-end-releases-the-call")
		vrt.Assert(werr == context.Canceled, "c18-context-error-returned")
	}
	if scenario == 4 {
		// Close is called while the call waits; it stays pending (it waits for the stalled sender), and then the
		// caller's context ends: the call is released now, it does not wait for Close to complete
		vrt.Go("closer", func() { ch.Close(zzErrUserClose) })
		vrt.QuiesceIdle()
		cancel()
		vrt.QuiesceIdle()
		vrt.Assert(returned && werr != nil && wn == 0, "c18-context-end-releases-the-call")
	}
	close(tr.gate) // the sender resumes
	dead = vrt.Quiesce()
	vrt.Assert(!dead, "c18-everything-finishes")
	vrt.Assert(returned, "c18-call-returns")
	// was the waiter's payload transmitted?
	found := false
	for i := 0; i+1 < len(tr.log); i += 2 {
		if tr.log[i] == 0x7f {
			found = true
		}
	}
	if werr != nil {
		vrt.Assert(wn == 0, "c18-failed-call-reports-zero")
		vrt.Assert(!found, "c18-failed-call-transmits-nothing")
		vrt.Reach("c18-waiter-failed")
	} else {
		vrt.Assert(wn == 2, "c18-accepted-call-reports-length")
		if scenario != 3 && scenario != 4 {
			vrt.Assert(found, "c18-accepted-call-is-transmitted")
		}
		vrt.Reach("c18-waiter-succeeded")
	}
	if scenario == 0 {
		vrt.Assert(werr == nil, "c18-space-appearing-lets-the-call-succeed")
	}
	if scenario == 3 && werr != nil {
		vrt.Assert(werr == zzErrUserClose, "c18-close-error-returned")
	}
	vrt.Reach("c18-blocking-done")
}

// ZZ_C18_NonBlockingRace: non-blocking mode, the sender never dequeues, q-1 slots are taken; two writers race for the
// last slot: exactly one is accepted, the other gets the queue-full error, and neither waits.
func ZZ_C18_NonBlockingRace(q, entries int) {
	tr := newZZTransport()
	pl := NewPipeline()
	ex := &zzParkExecutor{}
	ch := newChannelWith(context.Background(), pl, tr, ex, 1, q, false).(*channel)
	pl.(*pipeline).channel = ch
	for k := 0; k < q-1; k++ {
		n, err := ch.Write1([]byte{byte(k + 1), 0x55})
		vrt.Assert(err == nil && n == 2, "c18-accepts-while-queue-has-room")
	}
	okCount, fullCount := 0, 0
	for w := 0; w < 2; w++ {
		w := w
		entry := entries
		for i := 0; i < w; i++ {
			entry /= 8
		}
		entry %= 8
		vrt.Go("w"+string(rune('0'+w)), func() {
			n, err := zzCall(ch, entry, context.Background(), []byte{byte(0x90 + w), 0x66})
			if err == nil {
				vrt.Assert(n == 2, "c18-accepted-call-reports-length")
				okCount++
			} else {
				vrt.Assert(err == ErrAsyncNoSpace && n == 0, "c18-queue-full-error-when-full")
				fullCount++
			}
		})
	}
	dead := vrt.Quiesce()
	vrt.Assert(!dead, "c18-nonblocking-never-waits")
	vrt.Assert(okCount == 1 && fullCount == 1, "c18-exactly-the-free-slot-is-filled")
	vrt.Assert(len(ch.writeQueue) == q, "c18-queue-holds-exactly-q")
	vrt.Reach("c18-nonblocking-race-done")
}
