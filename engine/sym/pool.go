package sym

// Precise sync.Pool model (C19): Get may return any object previously Put into the same
// sync.Pool and not yet handed out; the choice (including "miss") is nondeterministic.
// The per-pool item list is kept in the pool's `local` field cell.

func (e *Engine) poolItems(st *State, p Ptr) (TupleV, string) {
	path := pathAppend(p.Path, 1) // field `local`
	v := loadPath(st.obj(p.Obj).V, path)
	if t, ok := v.(TupleV); ok {
		return t, path
	}
	return nil, path
}

func (e *Engine) poolPut(st *State, th *Thread, p Ptr, x IfaceV) {
	items, path := e.poolItems(st, p)
	n := append(append(TupleV(nil), items...), x)
	o := st.wobj(p.Obj)
	o.V = storePath(o.V, path, n)
	e.Stats.PoolPuts++
}

// poolResolve concretises a lazy pool pointer. For Get, only shards that hold items are
// distinguished; all empty shards behave identically (miss), so they are not enumerated.
func (e *Engine) poolResolve(st *State, p Ptr, forGet bool) (Ptr, bool) {
	if p.Sym == nil {
		return p, true
	}
	if forGet {
		for k := 0; k < p.SymN; k++ {
			q := Ptr{Obj: p.Obj, Path: pathAppend(p.Path, k)}
			if items, _ := e.poolItems(st, q); len(items) > 0 {
				if e.decide(st, e.tb.Eq(p.Sym, e.tb.Const(p.Sym.W, uint64(k)))) {
					return q, true
				}
			}
		}
		return p, false // some empty shard
	}
	return e.resolvePtr(st, p), true
}

func (e *Engine) poolTake(st *State, th *Thread, p Ptr) Value {
	items, path := e.poolItems(st, p)
	if len(items) == 0 {
		return nil
	}
	k := e.chooseN(st, th, len(items)+1, "sync.Pool.Get")
	if k == len(items) {
		return nil // miss
	}
	x := items[k]
	n := append(append(TupleV(nil), items[:k]...), items[k+1:]...)
	o := st.wobj(p.Obj)
	o.V = storePath(o.V, path, n)
	e.Stats.PoolHits++
	return x
}
