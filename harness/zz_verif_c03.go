package netty

import (
	"fmt"

	"github.com/go-netty/go-netty/internal/vrt"
)

const (
	zzKActive = iota
	zzKRead
	zzKWrite
	zzKException
	zzKInactive
	zzKEvent
)

type zzVisit struct {
	id    int
	kind  int
	ctxOK bool
}

type zzRec struct {
	visits []zzVisit
}

// zzH is the common part of the probe handlers: identity, forwarding choice, trace.
type zzH struct {
	id  int
	fwd bool
	rec *zzRec
}

func (h *zzH) see(kind int, ctx HandlerContext, self Handler) {
	h.rec.visits = append(h.rec.visits, zzVisit{id: h.id, kind: kind, ctxOK: ctx.Handler() == self})
}

// one probe type per handler interface, one implementing all six, one implementing none
type zzPA struct{ zzH }
type zzPI struct{ zzH }
type zzPO struct{ zzH }
type zzPX struct{ zzH }
type zzPN struct{ zzH }
type zzPE struct{ zzH }
type zzPAll struct{ zzH }
type zzPNone struct{ zzH }

func (h *zzPA) HandleActive(ctx ActiveContext) {
	h.see(zzKActive, ctx, h)
	if h.fwd {
		ctx.HandleActive()
	}
}
func (h *zzPI) HandleRead(ctx InboundContext, m Message) {
	h.see(zzKRead, ctx, h)
	if h.fwd {
		ctx.HandleRead(m)
	}
}
func (h *zzPO) HandleWrite(ctx OutboundContext, m Message) {
	h.see(zzKWrite, ctx, h)
	if h.fwd {
		ctx.HandleWrite(m)
	}
}
func (h *zzPX) HandleException(ctx ExceptionContext, ex Exception) {
	h.see(zzKException, ctx, h)
	if h.fwd {
		ctx.HandleException(ex)
	}
}
func (h *zzPN) HandleInactive(ctx InactiveContext, ex Exception) {
	h.see(zzKInactive, ctx, h)
	if h.fwd {
		ctx.HandleInactive(ex)
	}
}
func (h *zzPE) HandleEvent(ctx EventContext, ev Event) {
	h.see(zzKEvent, ctx, h)
	if h.fwd {
		ctx.HandleEvent(ev)
	}
}
func (h *zzPAll) HandleActive(ctx ActiveContext) {
	h.see(zzKActive, ctx, h)
	if h.fwd {
		ctx.HandleActive()
	}
}
func (h *zzPAll) HandleRead(ctx InboundContext, m Message) {
	h.see(zzKRead, ctx, h)
	if h.fwd {
		ctx.HandleRead(m)
	}
}
func (h *zzPAll) HandleWrite(ctx OutboundContext, m Message) {
	h.see(zzKWrite, ctx, h)
	if h.fwd {
		ctx.HandleWrite(m)
	}
}
func (h *zzPAll) HandleException(ctx ExceptionContext, ex Exception) {
	h.see(zzKException, ctx, h)
	if h.fwd {
		ctx.HandleException(ex)
	}
}
func (h *zzPAll) HandleInactive(ctx InactiveContext, ex Exception) {
	h.see(zzKInactive, ctx, h)
	if h.fwd {
		ctx.HandleInactive(ex)
	}
}
func (h *zzPAll) HandleEvent(ctx EventContext, ev Event) {
	h.see(zzKEvent, ctx, h)
	if h.fwd {
		ctx.HandleEvent(ev)
	}
}

// model entry
type zzM struct {
	h    Handler
	id   int
	caps [6]bool
	fwd  bool
}

// zzMake creates a probe: variant 0 = implements exactly `kind`, 1 = implements all six, 2 = implements exactly one
// other interface, each with a forwarding choice.
func zzMake(id, kind int, rec *zzRec) zzM {
	variant := vrt.Choose(3)
	fwd := vrt.Choose(2) == 1
	base := zzH{id: id, fwd: fwd, rec: rec}
	m := zzM{id: id, fwd: fwd}
	k := kind
	if variant == 2 {
		k = (kind + 1 + vrt.Choose(2)) % 6
	}
	if variant == 1 {
		m.h = &zzPAll{base}
		m.caps = [6]bool{true, true, true, true, true, true}
		return m
	}
	switch k {
	case zzKActive:
		m.h = &zzPA{base}
	case zzKRead:
		m.h = &zzPI{base}
	case zzKWrite:
		m.h = &zzPO{base}
	case zzKException:
		m.h = &zzPX{base}
	case zzKInactive:
		m.h = &zzPN{base}
	case zzKEvent:
		m.h = &zzPE{base}
	}
	m.caps[k] = true
	return m
}

func zzInsert(list []zzM, at int, m zzM) []zzM {
	out := make([]zzM, 0, len(list)+1)
	out = append(out, list[:at]...)
	out = append(out, m)
	out = append(out, list[at:]...)
	return out
}

// ZZ_C03_Pipeline: after a program of `ops` pipeline-building operations the structure agrees with the list
// model, and one event of kind `kind` fired through entry point `entry` visits exactly the model's trace.
//
//	entry: 0 pipeline.Fire*, 1 Channel.Write / Channel.Trigger (write and event kinds), 2 ctx.Write / ctx.Trigger from a chosen position
func ZZ_C03_Pipeline(ops, kind, entry, multi int) {
	rec := &zzRec{}
	tr := newZZTransport()
	pl := NewPipeline()
	ch := zzNewChannel(pl, tr, 0, false)
	// model: index 0 = head, last = tail
	model := []zzM{{id: -1}, {id: -2}}
	model[0].caps[zzKWrite] = true     // head handles writes
	model[1].caps[zzKException] = true // tail handles exceptions
	nextID := 0
	var first zzM
	for op := 0; op < ops; op++ {
		var hs []zzM
		hs = append(hs, zzMake(nextID, kind, rec))
		nextID++
		if op == 0 {
			first = hs[0]
		}
		if multi != 0 && op == 1 {
			if vrt.Choose(2) == 1 {
				hs = append(hs, first) // repeated instance
			} else {
				hs = append(hs, zzMake(nextID, kind, rec))
				nextID++
			}
		}
		var handlers []Handler
		for _, m := range hs {
			handlers = append(handlers, m.h)
		}
		size := len(model)
		switch vrt.Choose(3) {
		case 0:
			pl.AddFirst(handlers...)
			for _, m := range hs {
				model = zzInsert(model, 1, m)
			}
		case 1:
			pl.AddLast(handlers...)
			for _, m := range hs {
				model = zzInsert(model, len(model)-1, m)
			}
		case 2:
			pos := vrt.IntIn(-1, size)
			pv := vrt.Panics(func() { pl.AddHandler(pos, handlers...) })
			if pos >= size {
				vrt.Assert(pv != nil && !vrt.IsRuntimeError(pv), "illegal-position-rejected")
				vrt.Reach("c03-illegal-position")
				return
			}
			vrt.Assert(pv == nil, "legal-position-accepted")
			at := pos + 1
			if pos == -1 || pos == size-1 {
				at = len(model) - 1
			}
			at = vrt.Concrete(at)
			for i, m := range hs {
				model = zzInsert(model, at+i, m)
			}
		}
	}
	// a handler implementing none of the interfaces is rejected and changes nothing
	{
		pv := vrt.Panics(func() { pl.AddLast(&zzPNone{}) })
		vrt.Assert(pv != nil && !vrt.IsRuntimeError(pv), "handler-without-interface-rejected")
		// also as the last of several handlers in one call, through each building operation: the whole call is
		// refused, the handlers in front of the bad one are not left behind
		good := &zzPE{zzH{id: 99, rec: rec}}
		switch vrt.Choose(3) {
		case 0:
			pv = vrt.Panics(func() { pl.AddLast(good, &zzPNone{}) })
		case 1:
			pv = vrt.Panics(func() { pl.AddFirst(good, &zzPNone{}) })
		default:
			pv = vrt.Panics(func() { pl.AddHandler(0, good, &zzPNone{}) })
		}
		vrt.Assert(pv != nil && !vrt.IsRuntimeError(pv), "handler-without-interface-rejected")
	}
	// ---- structure
	n := len(model)
	vrt.Assert(pl.Size() == n, "size")
	vrt.Assert(pl.ContextAt(-1) == nil && pl.ContextAt(n) == nil, "contextat-out-of-range")
	for i := 1; i < n-1; i++ {
		c := pl.ContextAt(i)
		vrt.Assert(c != nil && c.Handler() == model[i].h, "contextat-order")
		want := model[i].h
		firstIdx, lastIdx := -1, -1
		for j := 1; j < n-1; j++ {
			if model[j].h == want {
				if firstIdx < 0 {
					firstIdx = j
				}
				lastIdx = j
			}
		}
		vrt.Assert(pl.IndexOf(func(h Handler) bool { return h == want }) == firstIdx, "indexof")
		vrt.Assert(pl.LastIndexOf(func(h Handler) bool { return h == want }) == lastIdx, "lastindexof")
	}
	vrt.Assert(pl.IndexOf(func(h Handler) bool { return false }) == -1, "indexof-missing")
	vrt.Assert(pl.LastIndexOf(func(h Handler) bool { return false }) == -1, "lastindexof-missing")
	// ---- routing
	var exErr error = zzErrClosed
	if kind == zzKException {
		// the class of the exception does not matter to the tail: whatever is forwarded past the last handler closes
		switch vrt.Choose(4) {
		case 1:
			exErr = &zzNetErr{timeout: true}
		case 2:
			exErr = fmt.Errorf("wrapped: %w", &zzNetErr{timeout: true})
		case 3:
			exErr = nil // AsException(recover()) on a path that did not panic: routed like any other exception
		}
	}
	start := 0 // model index the event starts *after* (inbound) or *before* (outbound)
	outbound := kind == zzKWrite
	if outbound {
		start = n - 1
	}
	payload := []byte{0x5a}
	switch entry {
	case 0:
		switch kind {
		case zzKActive:
			pl.FireChannelActive()
		case zzKRead:
			pl.FireChannelRead(payload)
		case zzKWrite:
			pl.FireChannelWrite(payload)
		case zzKException:
			pl.FireChannelException(exErr)
		case zzKInactive:
			pl.FireChannelInactive(exErr)
		case zzKEvent:
			pl.FireChannelEvent(7)
		}
	case 1:
		if kind == zzKWrite {
			vrt.Assert(ch.Write(payload) == nil, "channel-write-returns-nil")
		} else {
			ch.Trigger(7)
		}
	case 2, 4:
		start = vrt.Choose(n-2) + 1 // a user handler's context
		c := pl.ContextAt(start)
		if kind == zzKWrite {
			if entry == 4 {
				// the write is refused by the transport: the fault surfaces inside ctx.Write and must travel as an
				// exception event from the head of the pipeline (not from the writing handler's position)
				tr.failWriteAt = 1
				tr.writeErr = zzErrClosed
			}
			c.Write(payload)
		} else {
			c.Trigger(7)
		}
	case 3:
		// Channel.Trigger after the channel was closed: a user event is still an event (a farewell triggered from an
		// inactive handler, a timer that fires late); it visits the handlers like any other
		ch.Close(exErr)
		rec.visits = nil
		ch.Trigger(7)
	}
	// expected trace from the model
	var want []int
	reachedEnd := true
	if outbound {
		for i := start - 1; i >= 1; i-- {
			if model[i].caps[kind] {
				want = append(want, model[i].id)
				if !model[i].fwd {
					reachedEnd = false
					break
				}
			}
		}
	} else {
		for i := start + 1; i < n-1; i++ {
			if model[i].caps[kind] {
				want = append(want, model[i].id)
				if !model[i].fwd {
					reachedEnd = false
					break
				}
			}
		}
	}
	wantKinds := make([]int, len(want))
	for i := range wantKinds {
		wantKinds[i] = kind
	}
	faulted := entry == 4 && kind == zzKWrite && reachedEnd
	excEnd := false
	if faulted {
		// the head's write failed: exception event from the head through every exception handler
		excEnd = true
		for i := 1; i < n-1; i++ {
			if model[i].caps[zzKException] {
				want = append(want, model[i].id)
				wantKinds = append(wantKinds, zzKException)
				if !model[i].fwd {
					excEnd = false
					break
				}
			}
		}
	}
	if kind == zzKException && reachedEnd || excEnd {
		// the tail closes the channel, which delivers the inactive event through the pipeline
		for i := 1; i < n-1; i++ {
			if model[i].caps[zzKInactive] {
				want = append(want, model[i].id)
				wantKinds = append(wantKinds, zzKInactive)
				if !model[i].fwd {
					break
				}
			}
		}
	}
	vrt.Assert(len(rec.visits) == len(want), "trace-length")
	for i := range want {
		if i < len(rec.visits) {
			v := rec.visits[i]
			vrt.Assert(v.id == want[i], "trace-order")
			vrt.Assert(v.kind == wantKinds[i], "trace-kind")
			vrt.Assert(v.ctxOK, "context-bound-to-own-handler")
		}
	}
	// effects at the ends of the pipeline
	if faulted {
		vrt.Assert(len(tr.log) == 0, "refused-write-transmits-nothing")
		if excEnd {
			vrt.Assert(tr.closes == 1 && !ch.IsActive(), "unhandled-exception-closes-channel")
		} else {
			vrt.Assert(tr.closes == 0 && ch.IsActive(), "handled-exception-keeps-channel")
		}
		vrt.Reach("c03-ctx-write-fault")
	} else if entry == 3 {
		vrt.Assert(tr.closes == 1 && len(tr.log) == 0, "no-side-effect")
		vrt.Reach("c03-trigger-after-close")
	} else if outbound {
		if reachedEnd {
			vrt.Assert(len(tr.log) == 1 && tr.log[0] == 0x5a, "forwarded-write-reaches-channel")
			vrt.Reach("c03-write-reaches-transport")
		} else {
			vrt.Assert(len(tr.log) == 0, "consumed-write-does-not-reach-channel")
		}
	} else if kind == zzKException {
		if reachedEnd {
			vrt.Assert(tr.closes == 1 && !ch.IsActive(), "unhandled-exception-closes-channel")
			vrt.Reach("c03-exception-closes")
		} else {
			vrt.Assert(tr.closes == 0 && ch.IsActive(), "handled-exception-keeps-channel")
		}
	} else {
		vrt.Assert(tr.closes == 0 && len(tr.log) == 0, "no-side-effect")
	}
	vrt.Reach("c03-done")
}

// zzInboundTrace is the model's trace of one inbound event of the given kind fired at the head.
func zzInboundTrace(model []zzM, kind int) []int {
	var want []int
	for i := 1; i < len(model)-1; i++ {
		if model[i].caps[kind] {
			want = append(want, model[i].id)
			if !model[i].fwd {
				break
			}
		}
	}
	return want
}

// ZZ_C03_LateInsert: the pipeline is built, an inbound event travels through it, then one more handler is inserted
// (first, in the middle or last) and the same kind of event is fired again: the second event visits the handlers of
// the pipeline as it is now. (A pipeline is extended while it is in use: a handshake handler that installs a codec.)
//
//	kind: 0 active, 1 read, 5 user event
func ZZ_C03_LateInsert(kind int) {
	rec := &zzRec{}
	tr := newZZTransport()
	pl := NewPipeline()
	ch := zzNewChannel(pl, tr, 0, false)
	_ = ch
	model := []zzM{{id: -1}, {id: -2}}
	model[0].caps[zzKWrite] = true
	model[1].caps[zzKException] = true
	for i := 0; i < 2; i++ {
		m := zzMake(i, kind, rec)
		pl.AddLast(m.h)
		model = zzInsert(model, len(model)-1, m)
	}
	fire := func() {
		switch kind {
		case zzKActive:
			pl.FireChannelActive()
		case zzKRead:
			pl.FireChannelRead([]byte{0x5a})
		default:
			pl.FireChannelEvent(7)
		}
	}
	check := func(label string) {
		want := zzInboundTrace(model, kind)
		vrt.Assert(len(rec.visits) == len(want), label+"-trace-length")
		for i := range want {
			if i < len(rec.visits) {
				vrt.Assert(rec.visits[i].id == want[i] && rec.visits[i].kind == kind, label+"-trace-order")
			}
		}
	}
	fire()
	check("first")
	m := zzMake(2, kind, rec)
	switch vrt.Choose(3) {
	case 0:
		pl.AddFirst(m.h)
		model = zzInsert(model, 1, m)
	case 1:
		pl.AddHandler(1, m.h) // behind the first user handler
		model = zzInsert(model, 2, m)
	default:
		pl.AddLast(m.h)
		model = zzInsert(model, len(model)-1, m)
	}
	vrt.Assert(pl.Size() == len(model), "size")
	rec.visits = nil
	fire()
	check("after-late-insert")
	vrt.Reach("c03-late-insert-done")
}
