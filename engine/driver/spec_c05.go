package driver

func init() {
	// ---------------------------------------------------------------- C05
	{
		var quick, thorough []*Job
		b := "real ServeChannel/readLoop/Close over a mock transport; `closers` user threads call Close concurrently with distinct errors, optionally a handler closes from inside a read or the active event; the transport read fails after nreads bytes (kind: block / io.EOF / timeout net.Error / other net.Error); ALL interleavings"
		add := func(list *[]*Job, args ...int64) {
			*list = append(*list, &Job{Pkg: "", Func: "ZZ_C05_Lifecycle", Args: args, Bounds: b})
		}
		// (q, closers, handlerClose, nreads, rkind, swallow)
		add(&quick, 0, 2, 0, 1, 0, 0)
		add(&quick, 2, 2, 0, 1, 0, 0)
		add(&quick, 0, 1, 1, 2, 0, 0)
		add(&quick, 2, 1, 2, 1, 0, 0)
		add(&quick, 0, 0, 0, 1, 1, 0)
		add(&quick, 0, 1, 0, 1, 1, 1)
		add(&quick, 2, 0, 0, 2, 3, 1)
		add(&quick, 0, 1, 0, 0, 2, 0)
		add(&quick, 0, 0, 0, 1, 0, 0)
		add(&quick, 0, 1, 3, 1, 0, 0)
		add(&quick, 2, 2, 3, 1, 1, 0)
		add(&quick, 0, 1, 4, 1, 0, 0) // shutdown order: the parent context ends, then Close
		add(&quick, 2, 2, 4, 1, 0, 0)
		add(&quick, 0, 0, 0, 1, 4, 1) // non-timeout net.Error wrapped (%w) by the reading handler, exception swallowed
		add(&quick, 2, 0, 0, 0, 4, 1)
		add(&thorough, 0, 3, 0, 1, 0, 0)
		add(&thorough, 2, 3, 0, 1, 0, 0)
		add(&thorough, 0, 2, 1, 2, 0, 0)
		add(&thorough, 2, 2, 2, 1, 0, 1)
		add(&thorough, 0, 2, 0, 1, 1, 0)
		add(&thorough, 2, 2, 0, 1, 3, 0)
		add(&thorough, 0, 2, 1, 2, 1, 1)
		add(&thorough, 1, 2, 0, 2, 2, 0)
		bw := "a write accepted on a queued channel whose first transport Writev / Flush fails in the background sender, racing with 0-2 user Close calls; transport calls are scheduling points; ALL interleavings"
		for _, c := range [][]int64{{1, 0, 1}, {2, 1, 1}, {1, 0, 0}, {1, 1, 0}} {
			quick = append(quick, &Job{Pkg: "", Func: "ZZ_C05_WriteFaultClose", Args: c, Bounds: bw})
		}
		for _, c := range [][]int64{{1, 0, 4}, {1, 1, 4}} { // one more write behind the failing one
			quick = append(quick, &Job{Pkg: "", Func: "ZZ_C05_WriteFaultClose", Args: c, Bounds: bw})
		}
		for _, c := range [][]int64{{1, 1, 2}, {2, 0, 2}, {2, 0, 8}} {
			thorough = append(thorough, &Job{Pkg: "", Func: "ZZ_C05_WriteFaultClose", Args: c, Bounds: bw})
		}
		Specs["C05"] = &Spec{
			Jobs: jobsBy(quick, thorough), Labels: labelFilter("c05-"),
			MustReach: []string{"c05-closed", "c05-open", "c05-user-close-won", "c05-write-fault-closed", "c05-user-close-beat-write-fault"},
			Bounds: map[string]string{
				"quick":    "up to 2 concurrent user Close calls plus a Close from a read / active handler, read failures of all four kinds after 0-2 bytes, synchronous and queue-2 channels; a failing Writev / Flush in the background sender racing with 0-1 user Close",
				"thorough": "3 concurrent Close calls; combinations of handler close with failing reads",
			},
			Outside:     "the holder itself (C13; its order - parent context first, then Close - is a closer kind here); a swallowed timeout read error with no Close at all (the read loop then retries forever by design)",
			Assumptions: Specs["C01"].Assumptions,
		}
	}
	// ---------------------------------------------------------------- C07
	{
		var quick, thorough []*Job
		b := "a handler panics (error / string / runtime error / timeout net.Error / other net.Error) on an active, read, write or user event entering through the read loop, Channel.Write, Channel.Trigger, ctx.Write or ctx.Trigger; exception handler absent / forwarding / swallowing; real ServeChannel; ALL interleavings"
		addP := func(list *[]*Job, args ...int64) {
			*list = append(*list, &Job{Pkg: "", Func: "ZZ_C07_Panic", Args: args, Bounds: b})
		}
		// (entry, on, pval, exmode, pos, q); event kinds: 0 active 1 read 2 write 5 event
		type comb struct{ entry, on int64 }
		combs := []comb{{0, 0}, {0, 1}, {1, 2}, {2, 5}, {3, 2}, {4, 5}}
		n := int64(0)
		for _, c := range combs {
			for pval := int64(0); pval < 5; pval++ {
				for exmode := int64(0); exmode < 3; exmode++ {
					pos := (pval + exmode) % 2
					if c.entry == 3 {
						pos = 0
					}
					if c.entry == 4 {
						pos = 1
					}
					l := &thorough
					if (n+pval+exmode)%3 == 0 {
						l = &quick
					}
					addP(l, c.entry, c.on, pval, exmode, pos, ((pval+exmode)%2)*2)
				}
			}
			n++
		}
		// exception handler in front of the failing handler (exmode 3 forwarding, 4 swallowing): one job per entry in quick
		for i, c := range combs {
			for pval := int64(0); pval < 5; pval++ {
				for _, exmode := range []int64{3, 4} {
					pos := (pval + exmode) % 2
					if c.entry == 3 {
						pos = 0
					}
					if c.entry == 4 {
						pos = 1
					}
					l := &thorough
					if (int64(i)+pval)%5 == 0 {
						l = &quick
					}
					addP(l, c.entry, c.on, pval, exmode, pos, ((pval+exmode)%2)*2)
				}
			}
		}
		// a handler context kept by the application and used from its own goroutine (entries 5 ctx.Write, 6 ctx.Trigger)
		for pval := int64(0); pval < 5; pval++ {
			for _, exmode := range []int64{0, 2} {
				l := &thorough
				if (pval+exmode/2)%2 == 0 {
					l = &quick
				}
				addP(l, 5, 2, pval, exmode, 0, (pval%2)*2)
				addP(l, 6, 5, pval, exmode, 1, ((pval+1)%2)*2)
			}
		}
		bf := "the k-th transport Write/Writev (what=0) or Flush (what=1) fails, or the transport Read fails (what=2), on synchronous and queued channels, with three writes issued; exception handler absent / forwarding / swallowing"
		// (q, what, k, exmode)
		for _, c := range [][]int64{{2, 0, 1, 0}, {2, 1, 1, 1}, {1, 0, 2, 2}, {0, 0, 1, 0}, {0, 1, 2, 1}, {0, 2, 1, 0}, {2, 2, 1, 2}, {0, 3, 1, 0}, {0, 3, 2, 1}, {0, 3, 1, 2},
			{2, 10, 1, 2}, {1, 21, 1, 2}, {2, 20, 2, 1}, {1, 11, 1, 0}} { // plain / timeout errors from the sender's write, swallowing handler
			quick = append(quick, &Job{Pkg: "", Func: "ZZ_C07_TransportFault", Args: c, Bounds: bf})
		}
		for _, c := range [][]int64{{2, 0, 2, 1}, {2, 1, 2, 0}, {1, 1, 1, 2}, {0, 0, 3, 2}, {1, 2, 1, 1}, {3, 0, 1, 0}} {
			thorough = append(thorough, &Job{Pkg: "", Func: "ZZ_C07_TransportFault", Args: c, Bounds: bf})
		}
		bc := "a handler closes the channel and then panics in the same delivery (concurrent=0) or another goroutine closes the channel while the delivery is in flight (concurrent=1); entries: 0 read loop, 1 Channel.Write, 2 Channel.Trigger"
		for entry := int64(0); entry < 3; entry++ {
			for conc := int64(0); conc < 2; conc++ {
				quick = append(quick, &Job{Pkg: "", Func: "ZZ_C07_CloseThenPanic", Args: []int64{entry, (entry + conc) % 5, conc * 2, conc}, Bounds: bc})
			}
		}
		bp := "the channel's parent context has ended but the channel is still open when a handler panics (read handler that cancels and panics in one delivery, Channel.Write, Channel.Trigger); exception handler absent / forwarding / swallowing"
		for _, c := range [][]int64{{0, 0, 0}, {0, 1, 0}, {0, 2, 2}, {1, 2, 0}, {1, 0, 2}, {2, 1, 0}, {1, 1, 0}, {2, 2, 2}} {
			quick = append(quick, &Job{Pkg: "", Func: "ZZ_C07_PanicAfterParentCancel", Args: c, Bounds: bp})
		}
		bcr := "the transport read fails with a non-timeout net.Error after `cut` bytes of a frame, with a shipped frame codec (length-field / varint / fixed / delimiter) in the pipeline; exception handler absent / forwarding / swallowing"
		for _, c := range [][]int64{{0, 0, 0}, {0, 1, 1}, {0, 2, 2}, {0, 4, 1}, {0, 3, 0}, {1, 0, 1}, {1, 2, 0}, {1, 3, 2}, {2, 1, 2}, {2, 2, 0}, {3, 1, 1}, {3, 2, 2}} {
			quick = append(quick, &Job{Pkg: "zzharness", Func: "ZZ_C07_CodecReadFault", Args: c, Bounds: bcr})
		}
		Specs["C07"] = &Spec{
			Jobs: jobsBy(quick, thorough), Labels: labelFilter("c07-"),
			MustReach: []string{"c07-bomb-fired", "c07-closed", "c07-open", "c07-fault-closed", "c07-fault-reported", "c07-close-then-panic-done", "c07-parent-cancel-done", "c07-codec-read-fault-done"},
			Bounds: map[string]string{
				"quick":    "one third of the 90 (entry, event, panic value, exception-handler mode) combinations with two candidate handler positions, plus 12 of the 60 combinations with the exception handler in front of the failing handler; 7 transport-fault scenarios",
				"thorough": "all 150 combinations; 6 more transport-fault scenarios",
			},
			Outside:     "exception handlers that themselves panic (excluded by the statement); the idle-timer entry point is decided in C20; pipelines longer than 4 handlers",
			Assumptions: Specs["C01"].Assumptions,
		}
	}
}
