// Package sym is a symbolic executor for Go SSA (golang.org/x/tools/go/ssa).
//
// term.go: hash-consed bit-vector / boolean terms with eager folding.
package sym

import (
	"fmt"
	"math/bits"
)

type Op uint8

const (
	OpConst Op = iota
	OpVar
	OpNot
	OpAnd
	OpOr
	OpIte
	OpEq
	OpAdd
	OpSub
	OpMul
	OpUDiv
	OpURem
	OpSDiv
	OpSRem
	OpBAnd
	OpBOr
	OpBXor
	OpBNot
	OpNeg
	OpShl
	OpLShr
	OpAShr
	OpULt
	OpULe
	OpSLt
	OpSLe
	OpExtract // K = hi<<8|lo
	OpConcat
	OpZExt
	OpSExt
	OpRead // uninterpreted byte function Name applied to Args[0] (BV64) -> BV8
)

var opSMT = map[Op]string{
	OpNot: "not", OpAnd: "and", OpOr: "or", OpIte: "ite", OpEq: "=",
	OpAdd: "bvadd", OpSub: "bvsub", OpMul: "bvmul", OpUDiv: "bvudiv", OpURem: "bvurem",
	OpSDiv: "bvsdiv", OpSRem: "bvsrem", OpBAnd: "bvand", OpBOr: "bvor", OpBXor: "bvxor",
	OpBNot: "bvnot", OpNeg: "bvneg", OpShl: "bvshl", OpLShr: "bvlshr", OpAShr: "bvashr",
	OpULt: "bvult", OpULe: "bvule", OpSLt: "bvslt", OpSLe: "bvsle", OpConcat: "concat",
}

// Term is an immutable, interned term. W==0 means Bool, otherwise a bit-vector of width W.
type Term struct {
	Op   Op
	W    uint8
	K    uint64 // constant value, extract bounds
	Name string // variable / memory symbol
	Args []*Term
	ID   int32
}

type tkey struct {
	op      Op
	w       uint8
	k       uint64
	name    string
	a, b, c int32
}

// TB is a term builder / intern table (one per job; not safe for concurrent use).
type TB struct {
	tab   map[tkey]*Term
	terms []*Term
	True  *Term
	False *Term
	// byte arrays
	arrTab  map[akey]*ByteArr
	arrN    int
	readMem map[[2]int32]*Term
	symN    int
}

func NewTB() *TB {
	tb := &TB{tab: map[tkey]*Term{}, arrTab: map[akey]*ByteArr{}, readMem: map[[2]int32]*Term{}}
	tb.True = tb.mk(OpConst, 0, 1, "")
	tb.False = tb.mk(OpConst, 0, 0, "")
	return tb
}

func (tb *TB) NumTerms() int { return len(tb.terms) }

func (tb *TB) mk(op Op, w uint8, k uint64, name string, args ...*Term) *Term {
	key := tkey{op: op, w: w, k: k, name: name, a: -1, b: -1, c: -1}
	if len(args) > 0 {
		key.a = args[0].ID
	}
	if len(args) > 1 {
		key.b = args[1].ID
	}
	if len(args) > 2 {
		key.c = args[2].ID
	}
	if t, ok := tb.tab[key]; ok {
		return t
	}
	t := &Term{Op: op, W: w, K: k, Name: name, ID: int32(len(tb.terms))}
	if len(args) > 0 {
		t.Args = append([]*Term(nil), args...)
	}
	tb.tab[key] = t
	tb.terms = append(tb.terms, t)
	return t
}

func mask(w uint8) uint64 {
	if w >= 64 {
		return ^uint64(0)
	}
	return (uint64(1) << w) - 1
}

func sext(v uint64, w uint8) int64 {
	if w >= 64 {
		return int64(v)
	}
	sh := 64 - uint(w)
	return int64(v<<sh) >> sh
}

func (t *Term) IsConst() bool { return t.Op == OpConst }
func (t *Term) IsBool() bool  { return t.W == 0 }
func (t *Term) IsTrue() bool  { return t.Op == OpConst && t.W == 0 && t.K == 1 }
func (t *Term) IsFalse() bool { return t.Op == OpConst && t.W == 0 && t.K == 0 }

// Int returns the constant value sign-extended.
func (t *Term) Int() int64 { return sext(t.K, t.W) }

func (tb *TB) Const(w uint8, v uint64) *Term {
	if w == 0 {
		if v != 0 {
			return tb.True
		}
		return tb.False
	}
	return tb.mk(OpConst, w, v&mask(w), "")
}
func (tb *TB) Int64(v int64) *Term { return tb.Const(64, uint64(v)) }
func (tb *TB) Bool(b bool) *Term {
	if b {
		return tb.True
	}
	return tb.False
}
func (tb *TB) Var(w uint8, name string) *Term { return tb.mk(OpVar, w, 0, name) }

func (tb *TB) Not(a *Term) *Term {
	if a.W != 0 {
		panic("Not on non-bool")
	}
	if a.IsConst() {
		return tb.Bool(a.K == 0)
	}
	if a.Op == OpNot {
		return a.Args[0]
	}
	return tb.mk(OpNot, 0, 0, "", a)
}

func (tb *TB) And(a, b *Term) *Term {
	if a.W != 0 || b.W != 0 {
		panic("And on non-bool")
	}
	if a.IsFalse() || b.IsFalse() {
		return tb.False
	}
	if a.IsTrue() {
		return b
	}
	if b.IsTrue() {
		return a
	}
	if a == b {
		return a
	}
	if (a.Op == OpNot && a.Args[0] == b) || (b.Op == OpNot && b.Args[0] == a) {
		return tb.False
	}
	// a ∧ (a ∧ x) patterns: cheap absorption one level deep
	if a.Op == OpAnd && (a.Args[0] == b || a.Args[1] == b) {
		return a
	}
	if b.Op == OpAnd && (b.Args[0] == a || b.Args[1] == a) {
		return b
	}
	return tb.mk(OpAnd, 0, 0, "", a, b)
}

func (tb *TB) Or(a, b *Term) *Term {
	if a.W != 0 || b.W != 0 {
		panic("Or on non-bool")
	}
	if a.IsTrue() || b.IsTrue() {
		return tb.True
	}
	if a.IsFalse() {
		return b
	}
	if b.IsFalse() {
		return a
	}
	if a == b {
		return a
	}
	if (a.Op == OpNot && a.Args[0] == b) || (b.Op == OpNot && b.Args[0] == a) {
		return tb.True
	}
	// (p∧c) ∨ (p∧¬c) = p
	if a.Op == OpAnd && b.Op == OpAnd && a.Args[0] == b.Args[0] {
		x, y := a.Args[1], b.Args[1]
		if (x.Op == OpNot && x.Args[0] == y) || (y.Op == OpNot && y.Args[0] == x) {
			return a.Args[0]
		}
	}
	return tb.mk(OpOr, 0, 0, "", a, b)
}

func (tb *TB) Implies(a, b *Term) *Term { return tb.Or(tb.Not(a), b) }

func (tb *TB) Ite(c, a, b *Term) *Term {
	if c.W != 0 {
		panic("Ite cond non-bool")
	}
	if a.W != b.W {
		panic(fmt.Sprintf("Ite width mismatch %d %d", a.W, b.W))
	}
	if c.IsTrue() {
		return a
	}
	if c.IsFalse() {
		return b
	}
	if a == b {
		return a
	}
	if c.Op == OpNot {
		return tb.Ite(c.Args[0], b, a)
	}
	if a.W == 0 {
		if a.IsTrue() && b.IsFalse() {
			return c
		}
		if a.IsFalse() && b.IsTrue() {
			return tb.Not(c)
		}
		if a.IsTrue() {
			return tb.Or(c, b)
		}
		if a.IsFalse() {
			return tb.And(tb.Not(c), b)
		}
		if b.IsTrue() {
			return tb.Or(tb.Not(c), a)
		}
		if b.IsFalse() {
			return tb.And(c, a)
		}
	}
	// ite(c, x, ite(c, y, z)) = ite(c, x, z)
	if b.Op == OpIte && b.Args[0] == c {
		return tb.Ite(c, a, b.Args[2])
	}
	if a.Op == OpIte && a.Args[0] == c {
		return tb.Ite(c, a.Args[1], b)
	}
	return tb.mk(OpIte, a.W, 0, "", c, a, b)
}

func (tb *TB) Eq(a, b *Term) *Term {
	if a.W != b.W {
		panic(fmt.Sprintf("Eq width mismatch %d %d", a.W, b.W))
	}
	if a == b {
		return tb.True
	}
	if a.IsConst() && b.IsConst() {
		return tb.Bool(a.K == b.K)
	}
	if a.W == 0 {
		if a.IsTrue() {
			return b
		}
		if b.IsTrue() {
			return a
		}
		if a.IsFalse() {
			return tb.Not(b)
		}
		if b.IsFalse() {
			return tb.Not(a)
		}
	}
	if a.IsConst() {
		a, b = b, a
	}
	// eq(ite(c,k1,k2), k) with constants
	if b.IsConst() && a.Op == OpIte && a.Args[1].IsConst() && a.Args[2].IsConst() {
		e1 := a.Args[1].K == b.K
		e2 := a.Args[2].K == b.K
		switch {
		case e1 && e2:
			return tb.True
		case e1:
			return a.Args[0]
		case e2:
			return tb.Not(a.Args[0])
		default:
			return tb.False
		}
	}
	// eq(zext(x), k): k must fit
	if b.IsConst() && a.Op == OpZExt {
		x := a.Args[0]
		if b.K > mask(x.W) {
			return tb.False
		}
		return tb.Eq(x, tb.Const(x.W, b.K))
	}
	if a.ID > b.ID && !b.IsConst() {
		a, b = b, a
	}
	return tb.mk(OpEq, 0, 0, "", a, b)
}

func (tb *TB) Ne(a, b *Term) *Term { return tb.Not(tb.Eq(a, b)) }

func (tb *TB) bin(op Op, a, b *Term) *Term {
	if a.W != b.W || a.W == 0 {
		panic(fmt.Sprintf("bin %v width mismatch %d %d", opSMT[op], a.W, b.W))
	}
	w := a.W
	m := mask(w)
	if a.IsConst() && b.IsConst() {
		x, y := a.K, b.K
		var r uint64
		switch op {
		case OpAdd:
			r = x + y
		case OpSub:
			r = x - y
		case OpMul:
			r = x * y
		case OpUDiv:
			if y == 0 {
				r = m
			} else {
				r = x / y
			}
		case OpURem:
			if y == 0 {
				r = x
			} else {
				r = x % y
			}
		case OpSDiv:
			sx, sy := sext(x, w), sext(y, w)
			if sy == 0 {
				if sx < 0 {
					r = 1
				} else {
					r = m
				}
			} else if sy == -1 {
				r = uint64(-sx)
			} else {
				r = uint64(sx / sy)
			}
		case OpSRem:
			sx, sy := sext(x, w), sext(y, w)
			if sy == 0 {
				r = x
			} else if sy == -1 {
				r = 0
			} else {
				r = uint64(sx % sy)
			}
		case OpBAnd:
			r = x & y
		case OpBOr:
			r = x | y
		case OpBXor:
			r = x ^ y
		case OpShl:
			if y >= uint64(w) {
				r = 0
			} else {
				r = x << y
			}
		case OpLShr:
			if y >= uint64(w) {
				r = 0
			} else {
				r = x >> y
			}
		case OpAShr:
			sx := sext(x, w)
			if y >= uint64(w) {
				if sx < 0 {
					r = m
				} else {
					r = 0
				}
			} else {
				r = uint64(sx >> y)
			}
		}
		return tb.Const(w, r)
	}
	switch op {
	case OpAdd:
		if a.IsConst() {
			a, b = b, a
		}
		if b.IsConst() && b.K == 0 {
			return a
		}
		// (x + c1) + c2
		if b.IsConst() && a.Op == OpAdd && a.Args[1].IsConst() {
			return tb.bin(OpAdd, a.Args[0], tb.Const(w, a.Args[1].K+b.K))
		}
		if b.IsConst() && a.Op == OpSub && a.Args[1].IsConst() {
			return tb.bin(OpAdd, a.Args[0], tb.Const(w, b.K-a.Args[1].K))
		}
	case OpSub:
		if b.IsConst() && b.K == 0 {
			return a
		}
		if a == b {
			return tb.Const(w, 0)
		}
		if b.IsConst() {
			return tb.bin(OpAdd, a, tb.Const(w, -b.K))
		}
		// (x + y) - x = y ; (x + y) - y = x
		if a.Op == OpAdd {
			if a.Args[0] == b {
				return a.Args[1]
			}
			if a.Args[1] == b {
				return a.Args[0]
			}
		}
	case OpMul:
		if a.IsConst() {
			a, b = b, a
		}
		if b.IsConst() {
			if b.K == 0 {
				return b
			}
			if b.K == 1 {
				return a
			}
		}
	case OpBAnd:
		if a.IsConst() {
			a, b = b, a
		}
		if b.IsConst() {
			if b.K == 0 {
				return b
			}
			if b.K == m {
				return a
			}
		}
		if a == b {
			return a
		}
	case OpBOr:
		// byte re-assembly: (x & m1) | (x & m2) = x & (m1|m2), recognising zext/extract/shift forms
		if xa, ma, ok := tb.maskedForm(a); ok {
			if xb, mb, ok := tb.maskedForm(b); ok && xa == xb {
				m := ma | mb
				if m == mask(w) {
					return xa
				}
				return tb.mk(OpBAnd, w, 0, "", xa, tb.Const(w, m))
			}
		}
		if a.IsConst() {
			a, b = b, a
		}
		if b.IsConst() {
			if b.K == 0 {
				return a
			}
			if b.K == m {
				return b
			}
		}
		if a == b {
			return a
		}
	case OpBXor:
		if a.IsConst() {
			a, b = b, a
		}
		if b.IsConst() && b.K == 0 {
			return a
		}
		if a == b {
			return tb.Const(w, 0)
		}
	case OpShl, OpLShr, OpAShr:
		if b.IsConst() && b.K == 0 {
			return a
		}
		if a.IsConst() && a.K == 0 {
			return a
		}
	case OpUDiv:
		if b.IsConst() && b.K == 1 {
			return a
		}
		if b.IsConst() && b.K != 0 && bits.OnesCount64(b.K) == 1 {
			return tb.bin(OpLShr, a, tb.Const(w, uint64(bits.TrailingZeros64(b.K))))
		}
	case OpURem:
		if b.IsConst() && b.K != 0 && bits.OnesCount64(b.K) == 1 {
			return tb.bin(OpBAnd, a, tb.Const(w, b.K-1))
		}
	case OpSDiv:
		if b.IsConst() && b.K == 1 {
			return a
		}
		// signed division by a positive power of two: bias negative dividends, then shift
		if b.IsConst() && sext(b.K, w) > 1 && bits.OnesCount64(b.K) == 1 {
			k := uint64(bits.TrailingZeros64(b.K))
			sign := tb.bin(OpAShr, a, tb.Const(w, uint64(w-1)))
			bias := tb.bin(OpLShr, sign, tb.Const(w, uint64(w)-k))
			return tb.bin(OpAShr, tb.bin(OpAdd, a, bias), tb.Const(w, k))
		}
	case OpSRem:
		if b.IsConst() && sext(b.K, w) > 1 && bits.OnesCount64(b.K) == 1 {
			k := uint64(bits.TrailingZeros64(b.K))
			q := tb.bin(OpSDiv, a, b)
			return tb.bin(OpSub, a, tb.bin(OpShl, q, tb.Const(w, k)))
		}
	}
	return tb.mk(op, w, 0, "", a, b)
}

// maskedForm recognises terms equal to (x & mask) for a contiguous bit range of x (same width).
func (tb *TB) maskedForm(t *Term) (*Term, uint64, bool) {
	w := t.W
	switch t.Op {
	case OpBAnd:
		if t.Args[1].IsConst() {
			return t.Args[0], t.Args[1].K, true
		}
	case OpZExt:
		e := t.Args[0]
		if e.Op == OpExtract && e.Args[0].W == w && uint8(e.K&0xff) == 0 {
			return e.Args[0], mask(e.W), true
		}
	case OpShl:
		if t.Args[1].IsConst() && t.Args[0].Op == OpZExt {
			e := t.Args[0].Args[0]
			k := t.Args[1].K
			if e.Op == OpExtract && e.Args[0].W == w && uint64(e.K&0xff) == k {
				return e.Args[0], mask(e.W) << k, true
			}
			// zext(x') << k where x' is itself the low part: extract(x, h, 0) shifted is not a mask of x unless k == lo
		}
	}
	return nil, 0, false
}

func (tb *TB) Add(a, b *Term) *Term  { return tb.bin(OpAdd, a, b) }
func (tb *TB) Sub(a, b *Term) *Term  { return tb.bin(OpSub, a, b) }
func (tb *TB) Mul(a, b *Term) *Term  { return tb.bin(OpMul, a, b) }
func (tb *TB) UDiv(a, b *Term) *Term { return tb.bin(OpUDiv, a, b) }
func (tb *TB) URem(a, b *Term) *Term { return tb.bin(OpURem, a, b) }
func (tb *TB) SDiv(a, b *Term) *Term { return tb.bin(OpSDiv, a, b) }
func (tb *TB) SRem(a, b *Term) *Term { return tb.bin(OpSRem, a, b) }
func (tb *TB) BAnd(a, b *Term) *Term { return tb.bin(OpBAnd, a, b) }
func (tb *TB) BOr(a, b *Term) *Term  { return tb.bin(OpBOr, a, b) }
func (tb *TB) BXor(a, b *Term) *Term { return tb.bin(OpBXor, a, b) }
func (tb *TB) Shl(a, b *Term) *Term  { return tb.bin(OpShl, a, b) }
func (tb *TB) LShr(a, b *Term) *Term { return tb.bin(OpLShr, a, b) }
func (tb *TB) AShr(a, b *Term) *Term { return tb.bin(OpAShr, a, b) }

func (tb *TB) BNot(a *Term) *Term {
	if a.IsConst() {
		return tb.Const(a.W, ^a.K)
	}
	if a.Op == OpBNot {
		return a.Args[0]
	}
	return tb.mk(OpBNot, a.W, 0, "", a)
}

func (tb *TB) Neg(a *Term) *Term {
	if a.IsConst() {
		return tb.Const(a.W, -a.K)
	}
	return tb.mk(OpNeg, a.W, 0, "", a)
}

func (tb *TB) cmp(op Op, a, b *Term) *Term {
	if a.W != b.W || a.W == 0 {
		panic(fmt.Sprintf("cmp width mismatch %d %d", a.W, b.W))
	}
	if a.IsConst() && b.IsConst() {
		switch op {
		case OpULt:
			return tb.Bool(a.K < b.K)
		case OpULe:
			return tb.Bool(a.K <= b.K)
		case OpSLt:
			return tb.Bool(sext(a.K, a.W) < sext(b.K, b.W))
		case OpSLe:
			return tb.Bool(sext(a.K, a.W) <= sext(b.K, b.W))
		}
	}
	if a == b {
		return tb.Bool(op == OpULe || op == OpSLe)
	}
	switch op {
	case OpULt:
		if b.IsConst() && b.K == 0 {
			return tb.False
		}
		if a.Op == OpZExt && b.IsConst() && b.K > mask(a.Args[0].W) {
			return tb.True
		}
	case OpULe:
		if a.IsConst() && a.K == 0 {
			return tb.True
		}
		if a.Op == OpZExt && b.IsConst() && b.K >= mask(a.Args[0].W) {
			return tb.True
		}
	case OpSLt:
		// zext(x) <s k
		if a.Op == OpZExt && a.Args[0].W < a.W && b.IsConst() {
			if sext(b.K, b.W) <= 0 {
				return tb.False
			}
			if b.K > mask(a.Args[0].W) {
				return tb.True
			}
		}
	case OpSLe:
		if a.IsConst() && a.K == 0 && b.Op == OpZExt && b.Args[0].W < b.W {
			return tb.True
		}
	}
	return tb.mk(op, 0, 0, "", a, b)
}

func (tb *TB) ULt(a, b *Term) *Term { return tb.cmp(OpULt, a, b) }
func (tb *TB) ULe(a, b *Term) *Term { return tb.cmp(OpULe, a, b) }
func (tb *TB) SLt(a, b *Term) *Term { return tb.cmp(OpSLt, a, b) }
func (tb *TB) SLe(a, b *Term) *Term { return tb.cmp(OpSLe, a, b) }

func (tb *TB) Extract(a *Term, hi, lo uint8) *Term {
	w := hi - lo + 1
	if lo == 0 && w == a.W {
		return a
	}
	if a.IsConst() {
		return tb.Const(w, a.K>>lo)
	}
	if (a.Op == OpZExt || a.Op == OpSExt) && lo == 0 {
		x := a.Args[0]
		if w == x.W {
			return x
		}
		if w < x.W {
			return tb.Extract(x, hi, 0)
		}
		if a.Op == OpZExt {
			return tb.ZExt(x, w)
		}
		return tb.SExt(x, w)
	}
	if a.Op == OpExtract {
		ilo := uint8(a.K & 0xff)
		return tb.Extract(a.Args[0], hi+ilo, lo+ilo)
	}
	// extract of a logical right shift by a constant: select higher bits directly
	if a.Op == OpLShr && a.Args[1].IsConst() && a.Args[1].K+uint64(hi) < uint64(a.W) {
		k := uint8(a.Args[1].K)
		return tb.Extract(a.Args[0], hi+k, lo+k)
	}
	// extract low bits of bitwise/add ops over zext: push down for byte(x) patterns
	if lo == 0 && (a.Op == OpBAnd || a.Op == OpBOr || a.Op == OpBXor || a.Op == OpAdd || a.Op == OpSub) {
		l, r := a.Args[0], a.Args[1]
		if (l.IsConst() || l.Op == OpZExt) && (r.IsConst() || r.Op == OpZExt) {
			return tb.bin(a.Op, tb.Extract(l, hi, 0), tb.Extract(r, hi, 0))
		}
	}
	return tb.mk(OpExtract, w, uint64(hi)<<8|uint64(lo), "", a)
}

func (tb *TB) ZExt(a *Term, w uint8) *Term {
	if w == a.W {
		return a
	}
	if w < a.W {
		return tb.Extract(a, w-1, 0)
	}
	if a.IsConst() {
		return tb.Const(w, a.K)
	}
	if a.Op == OpZExt {
		return tb.ZExt(a.Args[0], w)
	}
	return tb.mk(OpZExt, w, 0, "", a)
}

func (tb *TB) SExt(a *Term, w uint8) *Term {
	if w == a.W {
		return a
	}
	if w < a.W {
		return tb.Extract(a, w-1, 0)
	}
	if a.IsConst() {
		return tb.Const(w, uint64(sext(a.K, a.W)))
	}
	if a.Op == OpZExt { // zero-extended then sign-extended: top bit is 0
		return tb.ZExt(a.Args[0], w)
	}
	return tb.mk(OpSExt, w, 0, "", a)
}

func (tb *TB) Concat(hi, lo *Term) *Term {
	if hi.IsConst() && lo.IsConst() {
		return tb.Const(hi.W+lo.W, hi.K<<lo.W|lo.K)
	}
	return tb.mk(OpConcat, hi.W+lo.W, 0, "", hi, lo)
}

// ReadSym is an application of the uninterpreted byte function name to idx.
func (tb *TB) ReadSym(name string, idx *Term) *Term {
	return tb.mk(OpRead, 8, 0, name, idx)
}

// Min/Max helpers (signed 64)
func (tb *TB) SMin(a, b *Term) *Term { return tb.Ite(tb.SLt(a, b), a, b) }

func (t *Term) String() string {
	switch t.Op {
	case OpConst:
		if t.W == 0 {
			if t.K == 1 {
				return "true"
			}
			return "false"
		}
		return fmt.Sprintf("%d:%d", sext(t.K, t.W), t.W)
	case OpVar:
		return t.Name
	case OpRead:
		return fmt.Sprintf("%s[%v]", t.Name, t.Args[0])
	case OpExtract:
		return fmt.Sprintf("ext[%d:%d](%v)", t.K>>8, t.K&0xff, t.Args[0])
	case OpZExt:
		return fmt.Sprintf("zext%d(%v)", t.W, t.Args[0])
	case OpSExt:
		return fmt.Sprintf("sext%d(%v)", t.W, t.Args[0])
	}
	s := "(" + opSMT[t.Op]
	for i, a := range t.Args {
		if i > 3 {
			s += " ..."
			break
		}
		s += " " + a.shortString(3)
	}
	return s + ")"
}

func (t *Term) shortString(depth int) string {
	if depth == 0 && len(t.Args) > 0 {
		return fmt.Sprintf("t%d", t.ID)
	}
	switch t.Op {
	case OpConst, OpVar:
		return t.String()
	case OpRead:
		return fmt.Sprintf("%s[%s]", t.Name, t.Args[0].shortString(depth-1))
	case OpExtract:
		return fmt.Sprintf("ext[%d:%d](%s)", t.K>>8, t.K&0xff, t.Args[0].shortString(depth-1))
	case OpZExt:
		return fmt.Sprintf("zext%d(%s)", t.W, t.Args[0].shortString(depth-1))
	case OpSExt:
		return fmt.Sprintf("sext%d(%s)", t.W, t.Args[0].shortString(depth-1))
	}
	s := "(" + opSMT[t.Op]
	for _, a := range t.Args {
		s += " " + a.shortString(depth-1)
	}
	return s + ")"
}
