#!/usr/bin/env python3
"""Regenerates the tables of DESIGN.md section 12 from /verif/seeded/*/meta.json and the notes below."""
import json, glob, os, re
R1 = {
 'C01-large-write-no-copy':'size sweep in quick did not take 65537 bytes through the copying entry points; now every entry point x 65537 with scribbling callers (caught by C10, the property it breaks)',
 'C04-delimiter-incremental-match':'only 1- and 2-byte delimiters, payload bytes disjoint from delimiter bytes; now a 3-byte delimiter with repeated leading byte and the weaker (true) contract "delimiter occurs only at the end"',
 'C04-varint-header-scratch':'engine could not slice a byte array nested in a struct (exit 2); now supported; plus a harness that keeps two encoder outputs before using them',
 'C05-cancel-after-inactive':'no panicking inactive handler in the harness; added',
 'C06-early-idle-before-flush':'mock Flush was atomic with the preceding store; transport calls are now scheduling points',
 'C06-neterr-close-skips-drain':'Close was always given the same plain error; close-argument kinds now rotate (nil, plain, timeout net.Error, wrapped net.Error)',
 'C08-lengthfield-negative-check':'quick tier had no 8-byte field with positive adjustment; added (thorough had it)',
 'C10-recycle-loopvar-alias':'abstract pool model never reuses buffers; added a sequential recycle harness under the precise pool model (also confirmed natively)',
 'C10-writev-single-fastpath':'Writev was always called with two buffers; entry points with one element / an empty element added',
 'C11-readfrom-chunk-check':'ReadFrom raced with Close only with a one-chunk reader; two-chunk reader with per-chunk ghost added',
 'C03-addhandler-pos0-shortcut':'multi-handler calls were thorough-only; one multi-handler job moved to quick',
 'C07-recover-after-closed-check':'no delivery in which the channel gets closed before the panic unwinds; ZZ_C07_CloseThenPanic added',
 'C09-head-prefers-readfrom':'no *bytes.Reader / *strings.Reader message above the 1024-byte chunk; carriers 9/10 with 1025 bytes added',
 'C14-bufwriter-large-writev-bypass':'head-handler harness used only the mock transport; ZZ_C14_Buffered runs a queued channel over the real buffered wrappers',
 'C16-json-buffered-fast-path':'json.Unmarshal had no stub (exit 2); stubbed through the same uninterpreted parser',
 'C16-text-zero-copy-string':'first ended inconclusive (exit 2): `[]byte` cast to `string` through `unsafe.Pointer`, no model. Added: strings that alias a byte object (`StrV.Alias`, resolved at every use; pointer-cast loads, `unsafe.String/StringData/SliceData/Slice`) and `ZZ_C16_TextRetained` (two messages through packet / length-field / delimiter / varint codec + text codec, both strings looked at after the second delivery); confirmed by native replay',
 'C17-large-read-bypass':'one caller buffer size per run; short and large reads are now mixed',
 'C18-failfast-full-check':'no two writers racing for the last slot behind a sender that never runs; ZZ_C18_NonBlockingRace added',
 'C19-hot-slot-race':'atomic.Pointer[T] unsupported (exit 2) and no concurrent Get harness; both added',
}
R2 = {
 'C01-ctxwritev-cancel-after-enqueue':'every call used context.Background(); `ZZ_C01_Ctx`: the Ctx entry points with a context cancelled before / during the call on a queue with room',
 'C01-failed-enqueue-double-recycle':'no refused call followed by further traffic, and the abstract pool cannot show a buffer that is in the pool twice; `ZZ_C10_FailThenRecycle` (precise pool) + double-Put detection in both pool models (caught by C10, the property it breaks)',
 'C04-delimiter-append-to-carrier':'payloads were always separate allocations; `ZZ_C04_AdjacentPayloads`: two payloads that are adjacent views of one array with spare capacity',
 'C04-strip-fastpath-into-body':'strip counts were 0 or exactly the header; three configurations now strip past the length field into the rest of the frame',
 'C05-sender-failure-ignored-when-closing':'write-side transport failures were only in C07 and never raced with Close; `ZZ_C05_WriteFaultClose`',
 'C05-serve-returns-on-ctx-done':'the probe finished its active handler in the same step as the Close it issued (threads park only at synchronisation operations); handlers now contain a scheduling point ("event still in progress" is observable)',
 'C06-close-skips-wait-on-cancelled-ctx':'the channel context never ended before Close; close kinds 4/5: the parent context is cancelled before / concurrently with Close (the order Shutdown uses)',
 'C07-ctxwrite-exception-from-current':'the exception handler always sat behind the failing handler; modes 3/4 put it in front',
 'C09-readfrom-recycle-chunk':'content damage on reader carriers was indistinguishable from the known interleaving finding (same label and facets, so it was suppressed); new oracle "every low-level write is an intact piece of one of the messages" (all attributions followed branch-free) which the known findings do not cover; plus `ZZ_C10_ReadFrom`',
 'C10-batch-lists-shared-backing':'recycle harness never had a backlog larger than one batch (q/2+1); two such jobs added (evaluated after this was already in: caught at its first run)',
 'C10-failed-enqueue-double-recycle':'twin of the C01 delivery above (evaluated after that strengthening: caught at its first run)',
 'C11-close-noop-when-ctx-done':'as C06: the parent context now ends before Close in one job per entry point',
 'C12-holder-closeall-empty-fastpath':'`len(m)` was not monitored as a read of the map; it is now',
 'C12-syncwritev-flush-outside-lock':'the race is inside the buffered transport, the mock transport is harness-owned and exempt; `ZZ_C12_Buffered` puts the channel on the real `transport.NewTransport`',
 'C13-holder-register-after-activation':'no application handler failing during activation; scenario bit 16',
 'C13-sync-stale-listener-relisten':'one listener per address; `ZZ_C13_Relisten` (closed before start, same address listened on again, late Async)',
 'C14-stealer-keeps-spare-capacity':'StealBytes was only fed single-write sources; multi-write sources whose fragments are out-of-order views of one array (a WriterTo, net.Buffers)',
 'C16-json-pooled-decoder-leftover':'one frame per codec instance and a stateless decoder stub; the stub now reads ahead and keeps what the parser did not consume in the decoder, `ZZ_C16_JSONTwoFrames` under the precise pool model',
 'C20-inactive-forward-before-release':'"inactive has passed the idle handler" was stamped after the whole event returned and no handler behind it took time or failed; the probe now stamps it on arrival, yields, and may panic',
}
R3 = {
 'C01-writev-large-split':'vectors above the largest pooled size only went through a single writer on a roomy queue; `ZZ_C01_BigVector`: a 65536/65537-byte two-part vector on a non-blocking queue with exactly one free slot',
 'C02-batch-cap-zero-queue1':'first run was killed by the OS (exit 137): the spinning sender incremented unbounded mock counters, so every turn was a new state; the mock counters now saturate (the loop is found as a livelock in 0.1 s) and exploration has a memory budget that ends a job as inconclusive instead of being killed',
 'C05-holder-inactive-only-if-registered':'caught by C13 (the holder is its subject); patch rebased after fix 8fb4b08',
 'C05-wrapped-neterr-no-close':'the probe raised the read error unwrapped; read-error kind 4 wraps it with %w the way the shipped frame codecs do',
 'C07-ctx-gated-exception':'no panic while the parent context had ended but the channel was still open; `ZZ_C07_PanicAfterParentCancel`',
 'C07-holder-lock-leak':'no two channels with one id; C13 scenario bit 32 (id factory repeats an id). That scenario first exposed a genuine defect of the unchanged tree (fix 8fb4b08, section 7); with it repaired the seeded change is reported by C13 as a deadlock in CloseAll; patch rebased after the fix',
 'C08-delimiter-resume-stale':'a decoder instance was never used again after it had rejected its input; every rejecting exit of the C08 harnesses now hands the same instance a fresh well-formed frame on a new source',
 'C09-large-writev-split':'no message above the largest pooled size next to a concurrent writer; one quick job with a 65537-byte vectored message (zero filler between a tag and a symbolic last byte)',
 'C11-close-timeout-ignored':'Close arguments were nil / sentinel / wrapped sentinel; timeout net.Error, wrapped timeout and other net.Error added',
 'C12-pbuffer-reset-after-put':'the abstract pool never hands an object from one goroutine to another; `ZZ_C19_BufferHandOver` under the precise pool model in race mode, with the edge Put(x) -> Get returning x',
 'C14-large-async-write-no-clone':'caught by C10, the property it breaks (snapshot semantics above 65536 bytes)',
 'C14-tobytes-reader-offset':'readers were always fresh; carriers 10-12: *bytes.Reader / *strings.Reader / *bytes.Buffer with two bytes already consumed',
 'C16-tobytes-append-into-first-piece':'[][]byte pieces were always in-order views; carrier 13 (out-of-order views of one array) in the ToBytes/ToReader harnesses and inbound path 7 of the text harness',
 'C18-ctxwritev-deadline-waits':'no context with a deadline (not modelled); `context.WithTimeout/WithDeadline` modelled for deadlines beyond the explored window, every entry point meets the full queue with such a context',
 'C19-pbuffer-reset-after-put':'round 2 "caught" the same change only through a false alarm of this work that was removed since (section 10); now: pool operations are scheduling points under the precise model, the object is up for grabs the moment Put stored it, `ZZ_C19_BufferHandOver`',
 'C20-active-forward-before-arm':'no handler behind the idle handler that closes the channel while it handles the active event; variant 3',
 'C20-write-stamp-after-forward':'every write succeeded; variant with the first write refused further down (transport error) after it passed the idle handler',
 'C01-recycle-loopvar-alias':'caught by C10 (same mechanism as a round-1 C10 delivery)',
}
R4 = {
 'C01-recycle-loopvar-alias-r4':'caught by C10 (third independent delivery of this mechanism)',
 'C05-writefail-close-before-drain':'the failing write was the only one; further writes are now issued behind it so that packets can be queued behind the failing batch',
 'C06-eof-close-skips-drain':'Close arguments had no end-of-stream class; close kinds 6 (io.EOF) and 7 (wrapped io.ErrUnexpectedEOF)',
 'C07-ctx-trigger-dedup':'ctx.Write / ctx.Trigger were only called from inside a delivery (a framework recover above them); entries 5/6 use a handler context the application kept, from a goroutine of its own',
 'C11-isactive-from-context':'one Close call per run; `ZZ_C11_TwoClosers`: the losing Close returns while the winning one is still inside Close, a write that begins after either returned must fail (C05 already reported the change through IsActive)',
 'C12-tcp-options-defaults':'transport/tcp was outside the loaded packages and harness-allocated objects are exempt from the monitor; `ZZ_C12_Options` in package tcp with `vrt.Monitored(opts)` (a caller-owned value the API shares between goroutines is not a probe)',
 'C13-accept-shutdown-check-hoisted':'a connection that Accept handed out but that never became a channel was indistinguishable from one that was never accepted (both unread, unclosed); the mock acceptor now marks what it hands out',
 'C13-bufconn-close-flush-err':'C13 ran on mock transports only; `ZZ_C13_BufferedClose`: a channel over the real buffered wrappers on a connection whose writes fail - after Close the connection itself is closed exactly once',
 'C14-flush-after-idle':'caught by C06 (it is the graceful-close property that breaks)',
 'C18-close-error-on-ctx-end':'no waiting caller whose context ends while a Close is pending behind the stalled sender; scenario 4, with the new `vrt.QuiesceIdle` (a poll loop the harness itself keeps alive is not a hang)',
}
R5 = {
 'C03-channel-trigger-dropped-after-close':'no event entered a pipeline whose channel was already closed; entry 3 (Channel.Trigger after Close)',
 'C03-ctx-write-exception-from-own-position':'no fault during a ctx.Write in the C03 harness (C07 caught this mechanism in round 2); entry 4: the transport refuses the write, the exception must travel from the head',
 'C04-bufread-large-bypass':'caught by C17 (the transport wrappers are its subject)',
 'C04-recycle-refused-packet':'caught by C10 (pool recycling is its subject)',
 'C05-bufconn-close-flush-error':'caught by C13 (`ZZ_C13_BufferedClose`, added in round 4)',
 'C05-holder-inactive-only-registered':'caught by C13 (the holder is its subject)',
 'C07-holder-dup-lock':'caught by C13 (scenario with a repeated channel id, added in round 3)',
 'C07-lenfield-body-errwrap':'no shipped codec in the C07 pipelines; `ZZ_C07_CodecReadFault` (zzharness): the transport read fails after `cut` bytes of a frame with each frame codec in the pipeline - the exception and the close error must still be the transport error (errors.Is)',
 'C08-packet-reset-after-deliver':'the packet codec was only used for single packets; `ZZ_C08_Packet`: a delivery that fails (handler panic / transport error mid-packet) followed by a good packet',
 'C09-bufconn-large-writev-bypass':'caught by C14 and C17 (buffered transport)',
 'C10-readfrom-eof-recycle':'the streaming reader always returned io.EOF separately; variant that returns its last data together with io.EOF',
 'C11-readfrom-eof-normalized':'Close arguments had no end-of-stream class in C11; io.EOF and wrapped io.ErrUnexpectedEOF added',
 'C12-options-append-alias':'package transport had no harness; `ZZ_C12_ParseOptions`: two concurrent calls over one caller-owned option slice with spare capacity (vrt.Monitored)',
 'C16-json-eof-tolerated':'the decoder stub reported one opaque error; it now reports the error classes of the real decoder (syntax / io.EOF for an input without a value / io.ErrUnexpectedEOF)',
 'C16-packet-reset-after-deliver':'retained-strings harness variant 4 (packet codec after a failed delivery); also caught by C08',
 'C19-readfrom-recycle-on-error':'caught by C10 (the change is in channel.go; C19 checks the pool itself)',
 'C19-recycle-loopvar-alias':'caught by C10 (fourth independent delivery of this mechanism)',
 'C20-trigger-guard':'no event handler that closes the channel before it panics; variant 3',
}
R6 = {
 'C03-tail-timeout-noclose':'the exception fired into the pipeline was always a plain error; it is now also a timeout net.Error and a wrapped one',
 'C07-assert-length-partial':'transport write faults were injected under Write1 only; fault kind 3 sends messages through the pipeline (Channel.Write -> head handler) while a Flush fails, i.e. a low-level write that reports (n > 0, error)',
 'C08-lengthfield-max-before-adjust':'with the configured maxima a frame just above the maximum never fitted into the stream, so it was rejected as truncated anyway; two configurations with small maxima added',
 'C09-writev-flush-unlocked':'caught by C12 (race inside the buffered transport; same mechanism as a round-2 delivery)',
 'C10-empty-write-skips-clone':'empty payloads were fresh zero-capacity slices; `ZZ_C10_EmptyWrite`: an empty view of a caller-owned 1024-capacity scratch buffer, precise pool model, the caller keeps using its buffer',
 'C12-empty-write-noclone':'caught by C10 (`ZZ_C10_EmptyWrite`); the race itself is between the application and the framework, which the monitor - restricted to repository code - does not watch',
 'C13-shutdown-skipped-when-context-already-done':'the bootstrap never ran on a user context; scenario bit 64 (WithContext, cancelled just before Shutdown)',
 'C14-writev-single-alias':'caught by C10 (snapshot semantics; fourth delivery of this mechanism)',
 'C20-trigger-exception-from-context':'the exception handler always sat behind the idle handler; `ZZ_C20_PanicRouting` puts it in front',
}
R7 = {
 'C01-recycle-loopvar-alias-r7':'caught by C10 (the recycled buffers alias one pool entry; fifth delivery of this mechanism)',
 'C02-hoisted-batch-buffers':'first run ended inconclusive (memory budget, exit 2): the sender spun over an ever growing vector and the mock transport counted every buffer, so no state repeated; the `buffers` counter saturates now like the other mock counters and the spin is reported as a livelock in 0.2 s',
 'C03-check-per-handler':'a call that inserts several handlers was only made with handlers that are all acceptable or all refused; `AddLast/AddFirst/AddHandler(0, good, bad)` must now be refused as a whole (nothing inserted, pipeline unchanged)',
 'C03-read-next-memo':'handlers were only inserted before the first event; `ZZ_C03_LateInsert`: a handler inserted after events have passed (at the end, at the front, at an index) sees every later event in its place (`zzInboundTrace`)',
 'C06-close-grace-shortened':'Close behind a stalled sender was released by the harness at once; close kind 8 keeps the sender stalled and asserts that the bounded wait lasts the documented grace period on the model clock (`vrt.Slept() >= 1s`) before it gives up',
 'C07-sender-failure-as-exception-r7':'the injected transport fault was one error class; `what/10` selects a plain error or a timeout net.Error, each must close the channel with exactly that error and reach the handlers once as the inactive cause, not as an exception',
 'C09-writev-flush-unlocked-r7':'caught by C12 (race inside the buffered transport; third delivery of this mechanism)',
 'C12-readfrom-recycle':'caught by C10 (a buffer goes back to the pool while its bytes are still queued); the race is between pool users, which C12 watches only under its own harnesses',
 'C16-json-shared-encoder':'first run ended inconclusive (exit 2, engine fault on `json.NewEncoder`): `(*json.Encoder).Encode` is now stubbed on top of the Marshal contract (marshalled bytes + newline in one Write to the encoder\'s writer), and `ZZ_C16_JSON` sends a second message through the same codec instance and looks at the first output again',
 'C20-write-rearm-after-inactive':'nothing passed the idle handler after inactive; variant 4 lets a read / a write pass it afterwards (a farewell written from an inactive handler): no timer may be armed and no idle event may follow',
}
R8 = {
 'C03-fire-exception-nil-guard-m8':'the exception fired into the pipeline was never nil; a fourth exception class (nil, what `AsException(recover())` yields on a path that did not panic) is routed and closes the channel like any other',
 'C11-writev-empty-fastpath-m8':'the payload written after Close was always three bytes; pre bit 2 writes an empty payload through every entry point, which must be refused like any other',
}
rows = []
for d in sorted(glob.glob('/verif/seeded/*/')):
    m = json.load(open(d + 'meta.json'))
    name = os.path.basename(d[:-1])
    rnd = 2 if os.path.exists(d + '.round2') or name in R2 or m.get('round') == 2 else 1
    rows.append((name, m['property'], m.get('caught_by', []), {k: v['exit'] for k, v in m.get('checks', {}).items()}, m.get('round', 1)))
def table(rnd, notes):
    out = ["| seeded change | target | caught by (quick) | what had to be strengthened |", "|---|---|---|---|"]
    for name, prop, caught, exits, r in rows:
        if r != rnd:
            continue
        c = ', '.join(caught) if caught else '— ' + str(exits)
        out.append(f"| `{name}` | {prop} | {c} | {notes.get(name, '— (caught as built)')} |")
    return '\n'.join(out)
if __name__ == '__main__':
    import sys
    print(table(int(sys.argv[1]), {'1': R1, '2': R2, '3': R3, '4': R4, '5': R5, '6': R6, '7': R7, '8': R8}[sys.argv[1]]))
