package netty

import (
	"context"
	"errors"
	"fmt"
	"io"

	"github.com/go-netty/go-netty/internal/vrt"
)

var zzErrUserClose = errors.New("zz: closed by user")

// ZZ_C06_Close: writers finish (their calls returned) before Close is invoked; the background sender may be
// anywhere, including its release / re-acquire window. At the moment the transport is closed every accepted
// payload must have been handed to it and flushed, and no batch write may be in progress.
// For bounded-wait channels (until == 0) this is required only if the closer slept less than the documented
// grace period (10 x 100 ms).
//
//	closeKind: 0 plain error, 1 nil, 2 timeout net.Error, 3 wrapped net.Error, 6 io.EOF, 7 wrapped io.ErrUnexpectedEOF, 8 the sender is stalled in Writev while Close runs (bounded-wait channels), 4 the parent context is cancelled
//	           before Close (Shutdown order), 5 concurrently with it
func ZZ_C06_Close(q, until, nw, ww, wwOther, entries, closeKind int) {
	tr := newZZTransport()
	tr.yield = true
	pl := NewPipeline()
	parent, cancelParent := context.WithCancel(context.Background())
	ch := newChannelWith(parent, pl, tr, AsyncExecutor(), 1, q, until != 0).(*channel)
	pl.(*pipeline).channel = ch
	g := &zzGhost{n: ww + (nw-1)*wwOther, content: "c01", sent: "c06-accepted-payload-sent-before-close"}
	if closeKind == 8 {
		// the sender stalls inside its first Writev for as long as Close runs (a peer that does not read): a
		// bounded-wait Close gives up, but only after the documented grace period
		tr.gate = make(chan struct{})
	}
	done := make(chan struct{}, nw)
	for w := 0; w < nw; w++ {
		w := w
		entry := entries
		for i := 0; i < w; i++ {
			entry /= 8
		}
		entry %= 8
		vrt.Go("w"+string(rune('0'+w)), func() {
			mine, base := ww, 0
			if w > 0 {
				mine, base = wwOther, ww+(w-1)*wwOther
			}
			for k := 0; k < mine; k++ {
				id := base + k
				p := zzPayload(id, 1+id%2)
				g.invoke(id, p)
				n, err := zzCall(ch, entry, context.Background(), p)
				g.ret(id, n, err)
			}
			done <- struct{}{}
		})
	}
	for w := 0; w < nw; w++ {
		<-done
	}
	accepted := 0
	for id := 0; id < g.n; id++ {
		if g.ok[id] {
			accepted++
		}
	}
	vrt.Facet("accepted", accepted)
	tr.onClose = func() {
		grace := until != 0 || vrt.Slept() < 1000000000
		if grace {
			vrt.Assert(!tr.inWrite && !tr.inFlush, "c06-transport-not-closed-during-a-batch-write")
			g.checkLog(tr.log, true) // c02-accepted-payload-was-sent: every accepted payload is in the log
			vrt.Assert(tr.unflushed == 0, "c06-flushed-before-close")
			vrt.Reach("c06-close-within-grace")
		} else {
			vrt.Reach("c06-close-after-grace")
		}
	}
	var closeErr error = zzErrUserClose
	switch closeKind {
	case 1:
		closeErr = nil
	case 2:
		closeErr = &zzNetErr{timeout: true} // e.g. a read deadline forwarded by an exception handler
	case 3:
		closeErr = fmt.Errorf("wrapped: %w", &zzNetErr{timeout: false})
	case 6:
		closeErr = io.EOF // the peer half-closed: a codec raised EOF and the exception handler closes with it
	case 7:
		closeErr = fmt.Errorf("read frame: %w", io.ErrUnexpectedEOF)
	}
	vrt.Facet("closekind", closeKind)
	switch closeKind {
	case 4:
		cancelParent() // what Bootstrap.Shutdown does before it closes the channels
	case 5:
		vrt.Go("shutdown", cancelParent)
	}
	ch.Close(closeErr)
	vrt.Assert(!ch.IsActive(), "c06-inactive-after-close")
	if closeKind == 8 {
		vrt.Assert(vrt.Slept() >= 1000000000, "c06-bounded-wait-lasts-the-documented-grace-period")
		close(tr.gate)
	}
	dead := vrt.Quiesce()
	vrt.Assert(!dead, "c06-no-thread-left-blocked")
	vrt.Assert(tr.closes == 1, "c06-transport-closed-once")
	if until != 0 {
		vrt.Assert(tr.writesAfterClose == 0, "c06-no-write-after-close")
	}
	vrt.Reach("c06-done")
}
