package zzharness

import (
	"context"
	"encoding/binary"
	"errors"

	"github.com/go-netty/go-netty"
	"github.com/go-netty/go-netty/codec/frame"
	"github.com/go-netty/go-netty/internal/vrt"
)

type netFault struct{ timeout bool }

func (e *netFault) Error() string   { return "zz: connection reset" }
func (e *netFault) Timeout() bool   { return e.timeout }
func (e *netFault) Temporary() bool { return false }

type excSink struct {
	mode int // 0 absent (not installed), 1 forwards, 2 swallows
	seen []netty.Exception
}

func (x *excSink) HandleException(ctx netty.ExceptionContext, ex netty.Exception) {
	if len(x.seen) < 4 {
		x.seen = append(x.seen, ex)
	}
	if x.mode == 1 {
		ctx.HandleException(ex)
	}
}

type inactSink struct {
	n  int
	ex netty.Exception
}

func (i *inactSink) HandleInactive(ctx netty.InactiveContext, ex netty.Exception) {
	i.n++
	i.ex = ex
	ctx.HandleInactive(ex)
}

type frameSink struct{ frames int }

func (s *frameSink) HandleRead(ctx netty.InboundContext, m netty.Message) { s.frames++ }

// ZZ_C07_CodecReadFault: the transport read fails with a non-timeout net.Error while a shipped frame codec is in
// the middle of a frame (after `cut` bytes: inside the header, between header and body, inside the body). The
// codec raises the failure; whatever it wraps it in, the channel is closed (also when a handler swallows the
// exception: the connection is broken), exactly once, and - when no handler swallows it - with an error that still
// IS the transport's error (errors.Is), and the read loop ends.
//
//	codec: 0 length-field (2-byte), 1 varint, 2 fixed length 3, 3 delimiter "\n"
func ZZ_C07_CodecReadFault(codec, cut, exmode int) {
	tr := netty.NewZZTransport()
	fault := &netFault{}
	var wire []byte
	var c netty.CodecHandler
	switch codec {
	case 0:
		c = frame.LengthFieldCodec(binary.BigEndian, 64, 0, 2, 0, 2)
		wire = []byte{0, 3, 'a', 'b', 'c'}
	case 1:
		c = frame.VarintLengthFieldCodec(64)
		wire = []byte{3, 'a', 'b', 'c'}
	case 2:
		c = frame.FixedLengthCodec(3)
		wire = []byte{'a', 'b', 'c'}
	default:
		c = frame.DelimiterCodec(64, "\n", true)
		wire = []byte{'a', 'b', '\n'}
	}
	vrt.Assume(cut < len(wire))
	tr.SetReadData(wire[:cut], fault)
	pl := netty.NewPipeline()
	sink := &frameSink{}
	exc := &excSink{mode: exmode}
	inact := &inactSink{}
	pl.AddLast(c, sink)
	if exmode != 0 {
		pl.AddLast(exc)
	}
	pl.AddLast(inact)
	ch := netty.NewChannel()(1, context.Background(), pl, tr, netty.AsyncExecutor())
	pl.ServeChannel(ch)
	dead := vrt.Quiesce()
	vrt.Assert(!dead, "c07-no-thread-left-blocked")
	vrt.Assert(sink.frames == 0, "c07-truncated-frame-not-delivered")
	vrt.Assert(tr.Closes() == 1 && !ch.IsActive(), "c07-transport-fault-closes-channel")
	vrt.Assert(inact.n == 1, "c07-inactive-once")
	if exmode != 0 {
		vrt.Assert(len(exc.seen) >= 1, "c07-exception-delivered")
		vrt.Assert(errors.Is(exc.seen[0], fault), "c07-exception-is-the-transport-error")
	}
	if exmode != 2 {
		vrt.Assert(errors.Is(inact.ex, fault), "c07-closed-with-the-transport-error")
	}
	vrt.Reach("c07-codec-read-fault-done")
}
