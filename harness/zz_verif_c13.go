package netty

import (
	"context"
	"errors"

	"github.com/go-netty/go-netty/internal/vrt"
	"github.com/go-netty/go-netty/transport"
)

var zzErrAcceptorClosed = errors.New("zz: acceptor closed")

// zzAcceptor blocks in Accept until a connection is offered or it is closed.
type zzAcceptor struct {
	conns   chan transport.Transport
	closedC chan struct{}
	closes  int
	inAccept int
}

func (a *zzAcceptor) Accept() (transport.Transport, error) {
	a.inAccept++
	defer func() { a.inAccept-- }()
	select {
	case t := <-a.conns:
		if zt, ok := t.(*zzTransport); ok {
			zt.accepted = true // from here on the connection is the framework's to close
		}
		return t, nil
	case <-a.closedC:
		return nil, zzErrAcceptorClosed
	}
}

func (a *zzAcceptor) Close() error {
	vrt.Yield() // every call into the mock is a scheduling point (its state is plain memory)
	a.closes++
	if a.closes == 1 {
		close(a.closedC)
	}
	return nil
}

// zzFactory is the mock transport factory: it records every acceptor and transport it creates.
type zzFactory struct {
	acceptors  []*zzAcceptor
	transports []*zzTransport
}

func (f *zzFactory) Schemes() transport.Schemes { return transport.Schemes{"zz"} }
func (f *zzFactory) Connect(options *transport.Options) (transport.Transport, error) {
	vrt.Yield()
	t := newZZTransport()
	f.transports = append(f.transports, t)
	return t, nil
}
func (f *zzFactory) Listen(options *transport.Options) (transport.Acceptor, error) {
	vrt.Yield()
	a := &zzAcceptor{conns: make(chan transport.Transport, 1), closedC: make(chan struct{})}
	f.acceptors = append(f.acceptors, a)
	return a, nil
}

// zzParkInbound consumes the transport like a codec (the read loop parks in it).
type zzParkInbound struct{}

func (zzParkInbound) HandleRead(ctx InboundContext, m Message) {
	if t, ok := m.(transport.Transport); ok {
		var b [1]byte
		t.Read(b[:])
	}
}

// ZZ_C13_Shutdown: a history of Listen+Async (or a listener that is closed by the user), an inbound connection
// offered to the acceptor, an optional client Connect, and Shutdown placed at every point (all interleavings).
// After Shutdown has returned and the system is quiescent, nothing may be left open.
//
//	scenario bit 0: a listener is started with Async      bit 1: an inbound connection is offered
//	         bit 2: a client Connect runs concurrently    bit 3: the user also calls Listener.Close
//	         bit 4: an application handler panics during activation and the exception is swallowed
//	         bit 5: the channel id factory hands out the same id to every channel
//	         bit 6: the bootstrap runs on a user context that is cancelled just before Shutdown
func ZZ_C13_Shutdown(scenario, queue int) {
	fac := &zzFactory{}
	inactives := 0
	actives := 0
	initializer := func(ch Channel) {
		ch.Pipeline().AddLast(zzParkInbound{}, ActiveHandlerFunc(func(ctx ActiveContext) {
			actives++
			ctx.HandleActive()
		}), InactiveHandlerFunc(func(ctx InactiveContext, ex Exception) {
			inactives++
			ctx.HandleInactive(ex)
		}))
		if scenario&16 != 0 {
			// an application handler fails during activation and the application's exception handler swallows it:
			// the channel stays open (and must still be closed by Shutdown)
			ch.Pipeline().AddLast(ActiveHandlerFunc(func(ctx ActiveContext) {
				panic("zz: activation failure")
			}), &zzExc{mode: 2})
		}
	}
	factory := NewChannel()
	if queue > 0 {
		factory = NewAsyncWriteChannel(queue, true)
	}
	opts := []Option{WithTransport(fac), WithChildInitializer(initializer), WithClientInitializer(initializer), WithChannel(factory)}
	if scenario&32 != 0 {
		// an id factory that hands out the same id twice: the holder refuses the second channel with a panic during
		// its activation; that channel is closed by the exception, the first one and the holder stay usable
		opts = append(opts, WithChannelID(func() int64 { return 7 }))
	}
	cancelUser := func() {}
	if scenario&64 != 0 {
		// the application gave the bootstrap its own context and cancels it before it calls Shutdown
		uctx, cancel := context.WithCancel(context.Background())
		cancelUser = cancel
		opts = append(opts, WithContext(uctx))
	}
	bs := NewBootstrap(opts...)
	var cbErr error
	cbCalled := 0
	vrt.Facet("scenario", scenario)
	if scenario&1 != 0 {
		l := bs.Listen("zz://zz:1")
		l.Async(func(err error) {
			cbErr = err
			cbCalled++
		})
		if scenario&8 != 0 {
			vrt.Go("lclose", func() { l.Close() })
		}
		if scenario&2 != 0 {
			vrt.Go("peer", func() {
				// a peer connects as soon as an acceptor exists (the harness looks for it once)
				vrt.Yield()
				if len(fac.acceptors) > 0 {
					t := newZZTransport()
					fac.transports = append(fac.transports, t)
					select {
					case fac.acceptors[0].conns <- t:
					default:
					}
				}
			})
		}
	}
	if scenario&4 != 0 {
		vrt.Go("client", func() {
			ch, err := bs.Connect("zz://zz:2")
			vrt.Assert(err == nil && ch != nil, "c13-connect-succeeds-with-mock-factory")
			if scenario&32 != 0 {
				bs.Connect("zz://zz:3") // same id again: refused by the holder during activation
			}
		})
	}
	cancelUser()
	bs.Shutdown()
	vrt.Assert(bs.Context().Err() != nil, "c13-bootstrap-context-cancelled")
	dead := vrt.Quiesce()
	// --- nothing is left open, without further stimulus
	for _, a := range fac.acceptors {
		vrt.Assert(a.closes >= 1, "c13-every-acceptor-closed")
		vrt.Assert(a.inAccept == 0, "c13-no-listener-left-accepting")
	}
	if scenario&1 != 0 {
		vrt.Assert(cbCalled == 1, "c13-accept-loop-ends")
		if scenario&8 == 0 {
			vrt.Assert(cbErr == ErrServerClosed, "c13-accept-loop-ends-with-server-closed")
		} else {
			vrt.Assert(cbErr != nil, "c13-accept-loop-ends-with-an-error")
		}
	}
	served := 0
	for _, t := range fac.transports {
		// a transport that was offered but never accepted (acceptor closed first) was never the framework's
		if t.reads == 0 && t.closes == 0 && !t.accepted {
			continue
		}
		served++
		vrt.Assert(t.closes == 1, "c13-every-channel-transport-closed-exactly-once")
	}
	if scenario&32 != 0 {
		// the refused channel's activation is cut short by the holder's panic before it reaches the counting handler;
		// its inactive event is still delivered exactly once: one inactive per transport that became a channel
		vrt.Assert(inactives == served, "c13-inactive-exactly-once-per-activated-channel")
	} else {
		vrt.Assert(inactives == actives, "c13-inactive-exactly-once-per-activated-channel")
	}
	vrt.Assert(!dead, "c13-no-goroutine-left-blocked")
	vrt.Reach("c13-done")
}

// ZZ_C13_Relisten: a listener is closed before its accept loop was started, the same address is listened on again
// and started, and only then the first listener's accept loop is started (late Async); Shutdown runs concurrently.
// The closed listener must not start accepting; after Shutdown nothing is left accepting and every acceptor the
// factory created is closed.
func ZZ_C13_Relisten(lateFirst int) {
	fac := &zzFactory{}
	initializer := func(ch Channel) { ch.Pipeline().AddLast(zzParkInbound{}) }
	bs := NewBootstrap(WithTransport(fac), WithChildInitializer(initializer), WithClientInitializer(initializer), WithChannel(NewChannel()))
	l1 := bs.Listen("zz://zz:1")
	l1.Close()
	l2 := bs.Listen("zz://zz:1")
	cb1, cb2 := 0, 0
	var err1 error
	if lateFirst != 0 {
		l2.Async(func(err error) { cb2++ })
		l1.Async(func(err error) { err1 = err; cb1++ })
	} else {
		l1.Async(func(err error) { err1 = err; cb1++ })
		l2.Async(func(err error) { cb2++ })
	}
	bs.Shutdown()
	dead := vrt.Quiesce()
	vrt.Assert(!dead, "c13-no-goroutine-left-blocked")
	for _, a := range fac.acceptors {
		vrt.Assert(a.closes >= 1, "c13-every-acceptor-closed")
		vrt.Assert(a.inAccept == 0, "c13-no-listener-left-accepting")
	}
	vrt.Assert(cb1 == 1 && cb2 == 1, "c13-accept-loop-ends")
	vrt.Assert(err1 != nil, "c13-accept-loop-ends-with-an-error")
	vrt.Reach("c13-relisten-done")
}

// ZZ_C13_BufferedClose: "the transport is closed" means the connection underneath the repository's buffered transport
// wrappers is closed - also when the connection is broken and an earlier write (or the flush inside Close) failed.
// A channel over transport.NewTransport(conn, rsize, wsize) on a connection whose writes fail is written to and
// then closed: the connection itself must have been closed exactly once.
func ZZ_C13_BufferedClose(rsize, wsize, q int) {
	conn := &zzConn{failWrite: true}
	tr := transport.NewTransport(conn, rsize, wsize)
	pl := NewPipeline()
	pl.AddLast(&zzProbe{swallowEx: true})
	ch := newChannelWith(context.Background(), pl, tr, AsyncExecutor(), 1, q, true).(*channel)
	pl.(*pipeline).channel = ch
	ch.Write1([]byte{1, 2, 3}) // stays in the write buffer or fails at once, depending on the sizes
	vrt.Quiesce()
	ch.Close(zzErrUserClose)
	vrt.Quiesce()
	vrt.Assert(conn.closes == 1, "c13-every-channel-transport-closed-exactly-once")
	vrt.Reach("c13-buffered-close-done")
}
