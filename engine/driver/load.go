// Package driver loads /repo with the harness overlay, runs jobs and writes evidence.
package driver

import (
	"fmt"
	"os"
	"path/filepath"
	"sort"
	"strings"
	"time"

	"golang.org/x/tools/go/packages"
	"golang.org/x/tools/go/ssa"
	"golang.org/x/tools/go/ssa/ssautil"
)

const (
	ModulePath = "github.com/go-netty/go-netty"
	VrtPath    = ModulePath + "/internal/vrt"
)

// RepoDir is the tree that is checked: always /repo for the registered commands. GOSYM_DEV_REPO points the
// debugging command `gosym run` at a scratch worktree while a check is busy with /repo (development only;
// `gosym check` ignores it).
var RepoDir = "/repo"

type Loaded struct {
	Prog     *ssa.Program
	Pkgs     map[string]*ssa.Package // by import path
	Overlay  map[string][]byte
	HarnessPkgs []string
	LoadTime time.Duration
	HarnessDir string
	Extra map[string][]byte // additional overlay (mutation self-test): repo path -> content
}

// harnessOverlay maps /verif/harness/<rel>/file.go to /repo/<rel>/file.go.
func harnessOverlay(harnessDir string) (map[string][]byte, []string, error) {
	ov := map[string][]byte{}
	pkgset := map[string]bool{}
	err := filepath.Walk(harnessDir, func(p string, info os.FileInfo, err error) error {
		if err != nil {
			return err
		}
		if info.IsDir() || !strings.HasSuffix(p, ".go") {
			return nil
		}
		rel, _ := filepath.Rel(harnessDir, p)
		data, err := os.ReadFile(p)
		if err != nil {
			return err
		}
		ov[filepath.Join(RepoDir, rel)] = data
		dir := filepath.Dir(rel)
		ip := ModulePath
		if dir != "." {
			ip = ModulePath + "/" + filepath.ToSlash(dir)
		}
		pkgset[ip] = true
		return nil
	})
	var pkgs []string
	for p := range pkgset {
		pkgs = append(pkgs, p)
	}
	sort.Strings(pkgs)
	return ov, pkgs, err
}

// Load builds SSA for the repository (current working tree) plus the harness overlay.
func Load(harnessDir string, extraOverlay map[string][]byte) (*Loaded, error) {
	start := time.Now()
	ov, hpkgs, err := harnessOverlay(harnessDir)
	if err != nil {
		return nil, err
	}
	for k, v := range extraOverlay {
		ov[k] = v
	}
	cfg := &packages.Config{
		Mode:    packages.LoadAllSyntax,
		Dir:     RepoDir,
		Overlay: ov,
		Env:     append(os.Environ(), "GOFLAGS=-mod=mod", "GOPROXY=off", "GOSUMDB=off", "GOTOOLCHAIN=local"),
		Tests:   false,
	}
	patterns := []string{
		ModulePath,
		ModulePath + "/codec",
		ModulePath + "/codec/frame",
		ModulePath + "/codec/format",
		ModulePath + "/transport",
		ModulePath + "/utils",
		ModulePath + "/utils/pool",
		ModulePath + "/utils/pool/pbytes",
		ModulePath + "/utils/pool/pbuffer",
		ModulePath + "/utils/pool/internal/pmath",
	}
	for _, p := range hpkgs {
		found := false
		for _, q := range patterns {
			if p == q {
				found = true
			}
		}
		if !found {
			patterns = append(patterns, p)
		}
	}
	pkgs, err := packages.Load(cfg, patterns...)
	if err != nil {
		return nil, err
	}
	var errs []string
	packages.Visit(pkgs, nil, func(p *packages.Package) {
		for _, e := range p.Errors {
			errs = append(errs, e.Error())
		}
	})
	if len(errs) > 0 {
		if len(errs) > 20 {
			errs = errs[:20]
		}
		return nil, fmt.Errorf("package load errors (does /repo compile with the harness overlay?):\n  %s", strings.Join(errs, "\n  "))
	}
	prog, _ := ssautil.AllPackages(pkgs, ssa.InstantiateGenerics)
	prog.Build()
	l := &Loaded{Prog: prog, Pkgs: map[string]*ssa.Package{}, Overlay: ov, HarnessPkgs: hpkgs, HarnessDir: harnessDir, Extra: extraOverlay}
	for _, p := range prog.AllPackages() {
		l.Pkgs[p.Pkg.Path()] = p
	}
	l.LoadTime = time.Since(start)
	return l, nil
}
