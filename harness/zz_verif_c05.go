package netty

import (
	"context"
	"errors"
	"io"

	"github.com/go-netty/go-netty/internal/vrt"
	"github.com/go-netty/go-netty/utils"
)

// zzLife is a probe handler for the lifecycle checks: it reads from the transport like a codec does.
type zzLife struct {
	actives, reads, inactives int
	activeDone                bool
	inRead                    bool
	inactiveEx                Exception
	exceptions                []Exception
	swallowEx                 bool
	closeInRead               error // when non-nil, the 2nd read delivery closes the channel from inside the handler
	closeInActive             error
	panicInInactive           bool
	wrapErr                   bool
	data                      []byte
}

func (p *zzLife) HandleActive(ctx ActiveContext) {
	p.actives++
	vrt.Assert(p.reads == 0, "c05-active-before-first-read")
	if p.closeInActive != nil {
		ctx.Close(p.closeInActive)
	}
	ctx.HandleActive()
	vrt.Yield() // a handler takes time: "active event still in progress" is an observable state
	p.activeDone = true
}

func (p *zzLife) HandleRead(ctx InboundContext, message Message) {
	vrt.Assert(p.activeDone, "c05-active-completes-before-first-read")
	vrt.Assert(!p.inRead, "c05-reads-one-at-a-time")
	p.inRead = true
	if p.reads < 3 {
		p.reads++ // saturating: the read loop may spin while a Close is in progress
	}
	if p.closeInRead != nil && p.reads == 2 {
		ctx.Close(p.closeInRead)
		vrt.Assert(!ctx.Channel().IsActive(), "c05-inactive-after-any-close-returns")
	}
	var buf [1]byte
	r := message.(io.Reader)
	func() {
		defer func() { p.inRead = false }()
		vrt.Yield() // a handler takes time: "read delivery in progress" is an observable state
		if p.wrapErr {
			// what the shipped frame codecs do with a failing read: the error is wrapped (%w) before it is raised
			n, err := r.Read(buf[:])
			utils.AssertIf(nil != err, "zz read fail, read: %d, error: %w", n, err)
			p.data = append(p.data, buf[:n]...)
			return
		}
		n := utils.AssertLength(r.Read(buf[:]))
		p.data = append(p.data, buf[:n]...)
	}()
	ctx.HandleRead(message)
}

func (p *zzLife) HandleException(ctx ExceptionContext, ex Exception) {
	if len(p.exceptions) < 3 {
		p.exceptions = append(p.exceptions, ex)
	}
	if !p.swallowEx {
		ctx.HandleException(ex)
	}
}

func (p *zzLife) HandleInactive(ctx InactiveContext, ex Exception) {
	p.inactives++
	p.inactiveEx = ex
	if p.panicInInactive {
		panic("zz: inactive handler failure")
	}
	ctx.HandleInactive(ex)
}

var (
	zzErrA = errors.New("zz: close A")
	zzErrB = errors.New("zz: close B")
	zzErrC = errors.New("zz: close C")
	zzErrH = errors.New("zz: close from handler")
)

// ZZ_C05_Lifecycle: ServeChannel with the real read loop; k user threads call Close concurrently with distinct
// errors; optionally a handler closes from inside a read or the active event; the transport read fails after
// `nreads` bytes with error kind `rkind` (0 block until closed, 1 io.EOF, 2 timeout net.Error, 3 other net.Error,
// 4 other net.Error wrapped with %w by the reading handler).
func ZZ_C05_Lifecycle(q, closers, handlerClose, nreads, rkind, swallow int) {
	tr := newZZTransport()
	for i := 0; i < nreads; i++ {
		tr.readData = append(tr.readData, byte(0x60+i))
	}
	switch rkind {
	case 1:
		tr.readErr = io.EOF
	case 2:
		tr.readErr = &zzNetErr{timeout: true}
	case 3, 4:
		tr.readErr = &zzNetErr{timeout: false}
	}
	probe := &zzLife{swallowEx: swallow != 0, wrapErr: rkind == 4}
	if rkind == 4 {
		rkind = 3 // the same fault, wrapped by the reading handler as the frame codecs do
	}
	switch handlerClose {
	case 1:
		probe.closeInRead = zzErrH
	case 2:
		probe.closeInActive = zzErrH
	case 3:
		probe.panicInInactive = true // a failing inactive handler must not keep the channel half-closed
	}
	pl := NewPipeline()
	pl.AddLast(probe)
	parent, cancelParent := context.WithCancel(vrtBackground())
	ch := newChannelWith(parent, pl, tr, AsyncExecutor(), 1, q, true).(*channel)
	winner := -1
	tr.onClose = func() { winner = vrt.Self() }
	pl.ServeChannel(ch)
	vrt.Assert(probe.activeDone && probe.actives == 1, "c05-active-done-when-serve-returns")
	errs := []error{zzErrA, zzErrB, zzErrC}
	var ids [3]int
	for k := 0; k < closers; k++ {
		k := k
		vrt.Go("closer"+string(rune('0'+k)), func() {
			ids[k] = vrt.Self()
			if handlerClose == 4 && k == 0 {
				cancelParent() // holder-driven shutdown: the parent context ends, then the channel is closed
			}
			ch.Close(errs[k])
			vrt.Assert(!ch.IsActive(), "c05-inactive-after-any-close-returns")
			if winner == ids[k] {
				vrt.Assert(ch.Context().Err() != nil, "c05-context-cancelled-after-effective-close")
				vrt.Reach("c05-user-close-won")
			}
		})
	}
	dead := vrt.Quiesce()
	closedSomehow := closers > 0 || (handlerClose != 0 && handlerClose != 3) || (rkind != 0 && swallow == 0) || rkind == 3
	if rkind == 2 && swallow != 0 && closers == 0 && handlerClose == 0 {
		// timeouts that a handler swallows leave the channel open and the read loop spinning on the failing read:
		// bounded by the harness budget; not reachable here because the probe consumes the budget first
		closedSomehow = false
	}
	vrt.Assert(probe.actives == 1, "c05-active-exactly-once")
	if closedSomehow {
		vrt.Assert(!dead, "c05-read-loop-terminates")
		vrt.Assert(tr.closes == 1, "c05-transport-closed-exactly-once")
		vrt.Assert(probe.inactives == 1, "c05-inactive-exactly-once")
		vrt.Assert(!ch.IsActive(), "c05-inactive-after-close")
		vrt.Assert(ch.Context().Err() != nil, "c05-context-cancelled")
		// the inactive event carries the error of the Close call that took effect
		for k := 0; k < closers; k++ {
			if winner == ids[k] {
				vrt.Assert(probe.inactiveEx == errs[k], "c05-inactive-carries-winning-error")
			}
		}
		box, _ := ch.closeErr.Load().(closeErrBox)
		vrt.Assert(probe.inactiveEx == box.err, "c05-inactive-carries-effective-close-error")
		vrt.Reach("c05-closed")
	} else {
		vrt.Assert(tr.closes == 0 && probe.inactives == 0 && ch.IsActive(), "c05-stays-open")
		vrt.Reach("c05-open")
	}
	vrt.Assert(len(probe.data) <= nreads, "c05-no-phantom-reads")
	for i := range probe.data {
		vrt.Assert(probe.data[i] == byte(0x60+i), "c05-reads-in-order")
	}
}

// ZZ_C05_WriteFaultClose: a write-side transport failure in the background sender racing with user Close calls
// (every interleaving, including a Close that takes effect while the sender is inside the failing transport call):
// the transport is closed exactly once, inactive is delivered exactly once with the error of the Close that took
// effect (a user's error or the transport fault), every Close call returns, the context ends, nothing hangs.
//
//	what: 0 the first Writev fails, 1 the first Flush fails
//
//	closers: bits 0-1 the number of user Close calls (0..2); bits 2-3 the number of further writes issued behind the
//	first one (so that packets may be queued behind the failing batch)
func ZZ_C05_WriteFaultClose(q, what, closers int) {
	extra := closers >> 2
	closers &= 3
	tr := newZZTransport()
	tr.yield = true
	fault := &zzNetErr{timeout: false}
	tr.writeErr = fault
	if what == 0 {
		tr.failWriteAt = 1
	} else {
		tr.failFlushAt = 1
	}
	probe := &zzLife{}
	pl := NewPipeline()
	pl.AddLast(probe)
	ch := newChannelWith(vrtBackground(), pl, tr, AsyncExecutor(), 1, q, true).(*channel)
	winner := -1
	tr.onClose = func() { winner = vrt.Self() }
	pl.ServeChannel(ch)
	n, err := ch.Write1([]byte{0x41})
	vrt.Assert(err == nil && n == 1, "c05-write-accepted-on-open-channel")
	if extra > 0 {
		vrt.Go("more-writes", func() {
			for i := 0; i < extra; i++ {
				ch.Write1([]byte{byte(0x42 + i)}) // accepted or refused (the channel may already be closing)
			}
		})
	}
	errs := []error{zzErrA, zzErrB}
	var ids [2]int
	returned := 0
	for k := 0; k < closers; k++ {
		k := k
		vrt.Go("closer"+string(rune('0'+k)), func() {
			ids[k] = vrt.Self()
			ch.Close(errs[k])
			returned++
			vrt.Assert(!ch.IsActive(), "c05-inactive-after-any-close-returns")
			if winner == ids[k] {
				vrt.Assert(ch.Context().Err() != nil, "c05-context-cancelled-after-effective-close")
			}
		})
	}
	dead := vrt.Quiesce()
	vrt.Assert(!dead && returned == closers, "c05-every-close-call-returns")
	vrt.Assert(tr.closes == 1, "c05-transport-closed-exactly-once")
	vrt.Assert(probe.inactives == 1, "c05-inactive-exactly-once")
	vrt.Assert(!ch.IsActive() && ch.Context().Err() != nil, "c05-context-cancelled")
	userWon := false
	for k := 0; k < closers; k++ {
		if winner == ids[k] {
			userWon = true
			vrt.Assert(probe.inactiveEx == errs[k], "c05-inactive-carries-winning-error")
		}
	}
	if !userWon {
		vrt.Assert(errors.Is(probe.inactiveEx, fault) || probe.inactiveEx == error(fault), "c05-inactive-carries-winning-error")
		vrt.Reach("c05-write-fault-closed")
	} else {
		vrt.Reach("c05-user-close-beat-write-fault")
	}
}
