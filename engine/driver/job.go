package driver

import (
	"fmt"
	"os"
	"io"
	"runtime/debug"
	"sort"
	"strings"
	"time"

	"golang.org/x/tools/go/ssa"

	"verif/engine/sym"
)

// Job is one harness run with concrete configuration arguments.
type Job struct {
	Prop        string
	Name        string
	Pkg         string // import path suffix below the module ("" = root package)
	Func        string
	Args        []int64
	Race        bool
	PoolPrecise bool
	SpinCut     int
	MaxSteps    int
	Limit       time.Duration
	Bounds      string // human-readable bound description
	MaxTimerFires int
	ConcreteClock bool
	ManualTimers bool
	SolverTimeoutMs int
	CrossEvery int
	SolverKind string
	SolverFallback bool
	BudgetViolation bool // an exhausted instruction budget is a violation (loop without progress), not inconclusive
}

func (j *Job) ID() string {
	if j.Name != "" {
		return j.Name
	}
	s := j.Func
	for _, a := range j.Args {
		s += fmt.Sprintf("/%d", a)
	}
	return s
}

type JobResult struct {
	Job      *Job
	Stats    sym.Stats
	Viols    []*sym.Violation
	Incon    []string
	Reached  map[string]int64
	Asserts  map[string]*sym.AssertStat
	Funcs    map[string]int64
	Stubs    map[string]int64
	Cuts     map[string]int64
	Queries  int
	Sat      int
	Unsat    int
	Unknown  int
	CacheHit int
	SolverS  float64
	WallS    float64
	Terms    int
	CrossChecked int
	CrossDisagree int
	FallbackQueries int
	Samples  []map[string]interface{}
	Witness  []sym.Witness
}

func pkgPath(suffix string) string {
	if suffix == "" || suffix == "." {
		return ModulePath
	}
	return ModulePath + "/" + suffix
}

// RunJob executes one job in its own engine (own term table and solver process).
func RunJob(l *Loaded, job *Job, tweak func(*sym.Config)) (res *JobResult) {
	start := time.Now()
	res = &JobResult{Job: job}
	defer func() {
		res.WallS = time.Since(start).Seconds()
		if r := recover(); r != nil {
			res.Incon = append(res.Incon, fmt.Sprintf("engine panic: %v\n%s", r, debug.Stack()))
		}
	}()
	pkg := l.Pkgs[pkgPath(job.Pkg)]
	if pkg == nil {
		res.Incon = append(res.Incon, "package not loaded: "+pkgPath(job.Pkg))
		return
	}
	fn := pkg.Func(job.Func)
	if fn == nil {
		res.Incon = append(res.Incon, "harness not found: "+job.Func+" in "+pkgPath(job.Pkg))
		return
	}
	cfg := sym.Config{ConcreteClock: job.ConcreteClock, ManualTimers: job.ManualTimers, SolverKind: job.SolverKind, SolverTimeoutMs: job.SolverTimeoutMs, SolverFallback: job.SolverFallback, MaxTimerFires: job.MaxTimerFires, BudgetViolation: job.BudgetViolation, VrtPath: VrtPath, ModulePrefix: ModulePath, Race: job.Race, SpinCut: job.SpinCut, MaxSteps: job.MaxSteps}
	if job.Limit > 0 {
		cfg.Deadline = start.Add(job.Limit)
	}
	if tweak != nil {
		tweak(&cfg)
	}
	e, err := sym.NewEngine(l.Prog, cfg)
	if err != nil {
		res.Incon = append(res.Incon, "cannot start solver: "+err.Error())
		return
	}
	defer e.Close()
	e.PoolPrecise = job.PoolPrecise
	if os.Getenv("GOSYM_PROFILE") != "" {
		e.DecideProfile = map[string]int{}
		defer func() {
			type kv struct {
				k string
				v int
			}
			var l []kv
			for k, v := range e.DecideProfile {
				l = append(l, kv{k, v})
			}
			sort.Slice(l, func(i, j int) bool { return l[i].v > l[j].v })
			for i := 0; i < len(l) && i < 25; i++ {
				fmt.Printf("  decide %6d %s\n", l[i].v, l[i].k)
			}
		}()
	}
	e.Known = knownFor(job.Prop)
	if vp := l.Pkgs[VrtPath]; vp != nil {
		e.SetRedirects(vp)
	}
	roots := []*ssa.Package{pkg}
	if vp := l.Pkgs[VrtPath]; vp != nil {
		roots = append(roots, vp)
	}
	if _, err := e.Boot(roots); err != nil {
		res.Incon = append(res.Incon, err.Error())
		return
	}
	st := e.Start(fn, job.Args)
	e.Explore(st)
	res.Stats = e.Stats
	res.Viols = e.Viols
	res.Incon = append(res.Incon, e.Incon...)
	res.Reached = e.Reached
	res.Asserts = e.Asserts
	res.Funcs = e.FuncCounts()
	res.Stubs = e.Stubs
	res.Cuts = e.CutsTotal
	sol := e.Solver()
	if sol.Err != nil {
		res.Incon = append(res.Incon, "solver: "+sol.Err.Error())
	}
	res.Queries, res.Sat, res.Unsat, res.Unknown, res.CacheHit = sol.Queries, sol.Sat, sol.Unsat, sol.Unknown, sol.CacheHits
	res.SolverS = sol.Time.Seconds()
	res.Terms = e.TB().NumTerms()
	res.CrossChecked, res.CrossDisagree, res.FallbackQueries = sol.CrossChecked, sol.CrossDisagree, sol.FallbackQueries
	res.Witness = e.Witnesses
	return
}

func (r *JobResult) Print(w io.Writer) {
	fmt.Fprintf(w, "job %s: wall %.2fs solver %.2fs queries %d (sat %d unsat %d unknown %d cached %d) terms %d\n",
		r.Job.ID(), r.WallS, r.SolverS, r.Queries, r.Sat, r.Unsat, r.Unknown, r.CacheHit, r.Terms)
	s := r.Stats
	fmt.Fprintf(w, "  instrs %d forks %d paths %d states %d transitions %d merged %d layers %d killed %d cuts %d maxfrontier %d\n",
		s.Instrs, s.Forks, s.Paths, s.States, s.Transitions, s.Merged, s.Layers, s.Killed, s.CutPaths, s.MaxFrontier)
	var labels []string
	for k := range r.Asserts {
		labels = append(labels, k)
	}
	sort.Strings(labels)
	for _, k := range labels {
		a := r.Asserts[k]
		fmt.Fprintf(w, "  assert %-32s checked %d solver %d violated %d\n", k, a.Checked, a.Solver, a.Violated)
	}
	var rl []string
	for k, v := range r.Reached {
		rl = append(rl, fmt.Sprintf("%s=%d", k, v))
	}
	sort.Strings(rl)
	if len(rl) > 0 {
		fmt.Fprintf(w, "  reached: %s\n", strings.Join(rl, " "))
	}
	for _, v := range r.Viols {
		tag := "VIOLATION"
		if v.Known {
			tag = "known-finding"
		}
		fmt.Fprintf(w, "  %s label=%s facets=%v: %s\n", tag, v.Label, v.Facets, v.Msg)
		for _, in := range v.Inputs {
			if in.Kind == "bytes" {
				fmt.Fprintf(w, "      %s %s len=%d %v\n", in.Kind, in.Name, in.Int, trunc(in.Bytes, 32))
			} else {
				fmt.Fprintf(w, "      %s %s = %d\n", in.Kind, in.Name, in.Int)
			}
		}
		if len(v.Sched) > 1 {
			for _, s := range v.Sched {
				fmt.Fprintf(w, "      sched %s\n", s)
			}
		}
	}
	for _, m := range r.Incon {
		fmt.Fprintf(w, "  INCONCLUSIVE: %s\n", m)
	}
}

func trunc(b []int, n int) []int {
	if len(b) > n {
		return b[:n]
	}
	return b
}
