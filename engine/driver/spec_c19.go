package driver

func init() {
	var quick, thorough []*Job
	quick = append(quick, &Job{Pkg: "utils/pool/internal/pmath", Func: "ZZ_C19_Pmath", Bounds: "n in [0,2^62], full 64-bit arithmetic, loop-free"})
	for _, m := range []int64{65536, 64, 10, 1} {
		quick = append(quick, &Job{Pkg: "utils/pool", Func: "ZZ_C19_PutGet", Args: []int64{m}, PoolPrecise: true, Bounds: "c,n in [0,2^62]"})
		quick = append(quick, &Job{Pkg: "utils/pool", Func: "ZZ_C19_Index", Args: []int64{m}, PoolPrecise: true})
	}
	quick = append(quick, &Job{Pkg: "utils/pool/pbytes", Func: "ZZ_C19_Bytes", Args: []int64{65536}, PoolPrecise: true, Bounds: "c,n in [0,2^40]"})
	quick = append(quick, &Job{Pkg: "utils/pool/pbytes", Func: "ZZ_C19_BytesDefault", PoolPrecise: true})
	quick = append(quick, &Job{Pkg: "utils/pool/pbuffer", Func: "ZZ_C19_Buffer", Args: []int64{65536}, PoolPrecise: true})
	for _, c := range [][]int64{{65536, 1000}, {65536, 1024}, {64, 7}} {
		quick = append(quick, &Job{Pkg: "utils/pool/pbytes", Func: "ZZ_C19_ConcurrentGet", Args: c, PoolPrecise: true, Bounds: "one pooled buffer, two concurrent Gets, all interleavings"})
	}
	for _, c := range [][]int64{{65536, 100}, {64, 7}} {
		quick = append(quick, &Job{Pkg: "utils/pool/pbuffer", Func: "ZZ_C19_BufferHandOver", Args: c, PoolPrecise: true, Bounds: "a buffer handed over through the pool from one goroutine to another (pool operations are scheduling points, the object is up for grabs the moment Put stored it), all interleavings"})
	}
	for _, m := range []int64{2, 3, 63, 65, 100, 127, 128, 129, 1000, 1024, 4095, 4096, 4097, 32768, 65535, 65537, 131072, 1 << 20} {
		thorough = append(thorough, &Job{Pkg: "utils/pool", Func: "ZZ_C19_PutGet", Args: []int64{m}, PoolPrecise: true})
		thorough = append(thorough, &Job{Pkg: "utils/pool", Func: "ZZ_C19_Index", Args: []int64{m}, PoolPrecise: true})
		thorough = append(thorough, &Job{Pkg: "utils/pool/pbytes", Func: "ZZ_C19_Bytes", Args: []int64{m}, PoolPrecise: true})
		thorough = append(thorough, &Job{Pkg: "utils/pool/pbuffer", Func: "ZZ_C19_Buffer", Args: []int64{m}, PoolPrecise: true})
	}
	Specs["C19"] = &Spec{
		Jobs:      jobsBy(quick, thorough),
		MustReach: []string{"pmath-n>2", "c19-reuse", "c19-miss", "c19-bytes-reuse", "c19-buffer-reuse", "c19-concurrent-done", "c19-buffer-handed-over"},
		Bounds: map[string]string{
			"quick":    "requested size n and Put capacity c: every value in [0,2^62] (generic pool) / [0,2^40] (pbytes, pbuffer), as 64-bit bit-vectors; pool max in {65536 (default), 64, 10, 1}; one Put followed by two Gets (inductive step over a memoryless shard); loop-free, no unwinding",
			"thorough": "same, with 18 more pool maxima from 2 to 2^20 around every power of two",
		},
		Outside: "sync.Pool internals (replaced by the precise model: Get returns any object Put into that sync.Pool and not yet handed out, or nothing); histories are covered by the one-step inductive argument of DESIGN.md C19, not enumerated; concurrent use is C12's subject",
		Assumptions: append([]string{
			"sync.Pool contract: an object Put into a sync.Pool is handed out by at most one later Get of the same sync.Pool, or dropped",
		}, commonAssumptions...),
	}
}
