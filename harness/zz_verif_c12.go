package netty

import (
	"context"
	"time"

	"github.com/go-netty/go-netty/internal/vrt"
	"github.com/go-netty/go-netty/transport"
	"github.com/go-netty/go-netty/utils/pool/pbytes"
)

// zzOp performs one of the operations the API offers for concurrent use.
func zzOp(ch *channel, op int, tag byte) {
	switch op {
	case 0:
		ch.Write1([]byte{tag, 1})
	case 1:
		ch.Writev([][]byte{{tag}, {2}})
	case 2:
		ch.Write([]byte{tag, 3})
	case 3:
		ch.Trigger(int(tag))
	case 4:
		ch.Close(zzErrUserClose)
	case 5:
		_ = ch.IsActive()
		_ = ch.Context().Err()
	case 6:
		ch.CtxWrite1(context.Background(), []byte{tag, 4})
	case 7:
		ch.Close(nil)
	case 8:
		ch.ReadFrom(&zzFragReader{data: []byte{tag, 5}})
	case 10:
		ch.CtxWritev(context.Background(), [][]byte{{tag}, {6}})
	case 9:
		if zzParentCancel != nil {
			zzParentCancel() // the parent context ends (what Bootstrap.Shutdown does before closing the channels)
		}
	}
}

var zzParentCancel context.CancelFunc

// ZZ_C12_Channel: two user goroutines invoke public channel operations concurrently while the framework's own
// goroutines (read loop, sender) run; the happens-before monitor checks every access of repository code.
func ZZ_C12_Channel(q, opA, opB, opC int) {
	tr := newZZTransport()
	tr.readData = []byte{0x51}
	pl := NewPipeline()
	pl.AddLast(&zzBomb{on: -1, reads: true}, &zzExc{mode: 2}, &zzInact{})
	parent, cancel := context.WithCancel(context.Background())
	zzParentCancel = cancel
	ch := newChannelWith(parent, pl, tr, AsyncExecutor(), 1, q, true).(*channel)
	pl.ServeChannel(ch)
	vrt.Facet("opA", opA)
	vrt.Facet("opB", opB)
	vrt.Go("a", func() { zzOp(ch, opA, 0xa0) })
	vrt.Go("b", func() { zzOp(ch, opB, 0xb0) })
	if opC >= 0 {
		vrt.Go("c", func() { zzOp(ch, opC, 0xc0) })
	}
	vrt.Quiesce()
	vrt.Reach("c12-channel-done")
}

// ZZ_C12_Buffered: concurrent writers on a channel that sits on the repository's REAL write-buffered transport
// (transport.NewTransport over a mock connection): the bufio.Writer inside it is repository-allocated state, so an
// entry point that touches the transport outside the channel's write lock is reported by the monitor.
func ZZ_C12_Buffered(q, opA, opB int) {
	conn := &zzConn{}
	tr := transport.NewTransport(conn, 0, 8)
	pl := NewPipeline()
	ch := newChannelWith(context.Background(), pl, tr, AsyncExecutor(), 1, q, true).(*channel)
	pl.(*pipeline).channel = ch
	vrt.Facet("opA", opA)
	vrt.Facet("opB", opB)
	vrt.Go("a", func() { zzOp(ch, opA, 0xa0) })
	vrt.Go("b", func() { zzOp(ch, opB, 0xb0) })
	vrt.Quiesce()
	vrt.Assert(len(conn.received) == 4, "c12-buffered-both-writes-arrive")
	vrt.Reach("c12-buffered-done")
}

// ZZ_C12_Bootstrap: Listen/Async/Listener.Close/Shutdown/Connect on one bootstrap from several goroutines.
func ZZ_C12_Bootstrap(scenario int) {
	fac := &zzFactory{}
	initializer := func(ch Channel) { ch.Pipeline().AddLast(zzParkInbound{}) }
	bs := NewBootstrap(WithTransport(fac), WithChildInitializer(initializer), WithClientInitializer(initializer), WithChannel(NewChannel()))
	l := bs.Listen("zz://zz:1")
	l.Async(func(err error) {})
	vrt.Facet("scenario", scenario)
	if scenario&1 != 0 {
		vrt.Go("lclose", func() { l.Close() })
	}
	if scenario&2 != 0 {
		vrt.Go("client", func() { bs.Connect("zz://zz:2") })
	}
	if scenario&4 != 0 {
		vrt.Go("peer", func() {
			vrt.Yield()
			if len(fac.acceptors) > 0 {
				t := newZZTransport()
				select {
				case fac.acceptors[0].conns <- t:
				default:
				}
			}
		})
	}
	if scenario&8 != 0 {
		vrt.Go("listen2", func() {
			l2 := bs.Listen("zz://zz:3")
			l2.Async(func(err error) {})
		})
	}
	bs.Shutdown()
	vrt.Quiesce()
	vrt.Reach("c12-bootstrap-done")
}

// ZZ_C12_Idle: the idle handlers' timer callbacks against traffic and the inactive event.
func ZZ_C12_Idle(kind, withInactive int) {
	if !vrt.Symbolic() {
		return
	}
	pl := NewPipeline()
	tr := newZZTransport()
	if kind == 0 {
		pl.AddLast(ReadIdleHandler(2 * time.Second))
	} else {
		pl.AddLast(WriteIdleHandler(2 * time.Second))
	}
	ch := zzNewChannel(pl, tr, 0, false)
	pl.FireChannelActive()
	if kind == 0 {
		pl.FireChannelRead([]byte{1})
	} else {
		ch.Write([]byte{1})
	}
	if withInactive != 0 {
		pl.FireChannelInactive(zzErrUserClose)
	}
	vrt.Quiesce()
	vrt.Reach("c12-idle-done")
}

// ZZ_C12_Pool: concurrent Get/Put on the shared byte pool (sync.Pool itself is trusted).
func ZZ_C12_Pool() {
	for i := 0; i < 2; i++ {
		i := i
		vrt.Go("p"+string(rune('0'+i)), func() {
			b := pbytes.Get(1000 + i)
			*b = append((*b)[:0], byte(i))
			pbytes.Put(b)
		})
	}
	vrt.Quiesce()
	vrt.Reach("c12-pool-done")
}
