package netty

import (
	"bytes"
	"context"
	"fmt"
	"io"

	"github.com/go-netty/go-netty/internal/vrt"
)

func zzCloseArg(kind int) error {
	switch kind {
	case 1:
		return zzErrUserClose
	case 2:
		return fmt.Errorf("wrapped: %w", zzErrUserClose)
	case 3:
		return &zzNetErr{timeout: true} // e.g. a read deadline handed to Close by an exception handler
	case 4:
		return fmt.Errorf("wrapped: %w", &zzNetErr{timeout: true})
	case 5:
		return &zzNetErr{timeout: false}
	case 6:
		return io.EOF // what a pipeline passes to Close when the peer disconnected
	case 7:
		return fmt.Errorf("read: %w", io.ErrUnexpectedEOF)
	}
	return nil
}

// zzCall7 covers all seven write entry points; for Write(message) n is -1.
func zzCall7(ch *channel, entry int, p []byte) (int64, error) {
	switch entry {
	case 5:
		return -1, ch.Write(p)
	case 6:
		return ch.ReadFrom(bytes.NewReader(p))
	}
	return zzCall(ch, entry, context.Background(), p)
}

// ZZ_C11_AfterClose: after Close(arg) has returned, every write entry point fails and transmits nothing.
// pre bit 0: one payload is accepted (and sent) before the Close, so that the sender has run;
// pre bit 1: the channel's parent context is cancelled before Close is called;
// pre bit 2: the payload written after Close is empty.
func ZZ_C11_AfterClose(q, until, entry, closeArg, pre int) {
	tr := newZZTransport()
	pl := NewPipeline()
	probe := &zzProbe{swallowEx: true}
	pl.AddLast(probe)
	parent, cancelParent := context.WithCancel(context.Background())
	ch := newChannelWith(parent, pl, tr, AsyncExecutor(), 1, q, until != 0).(*channel)
	pl.(*pipeline).channel = ch
	if pre&1 != 0 {
		n, err := ch.Write1([]byte{1, 2})
		vrt.Assert(err == nil && n == 2, "c11-open-channel-accepts")
	}
	vrt.Facet("entry", entry)
	vrt.Facet("closearg", closeArg)
	if pre&2 != 0 {
		if q > 0 {
			vrt.Quiesce() // the accepted payload is sent first
		}
		cancelParent() // the channel's parent context ends before Close is called (what Bootstrap.Shutdown does)
	}
	ch.Close(zzCloseArg(closeArg))
	sent := len(tr.log)
	payload := []byte{7, 8, 9}
	if pre&4 != 0 {
		payload = payload[:0] // pre bit 2: an empty payload is refused like any other
	}
	n, err := zzCall7(ch, entry, payload)
	vrt.Assert(err != nil, "c11-write-after-close-fails")
	vrt.Assert(n <= 0, "c11-write-after-close-reports-nothing-written")
	if q > 0 {
		vrt.Quiesce()
	}
	vrt.Assert(len(tr.log) == sent, "c11-nothing-transmitted-after-close")
	vrt.Assert(tr.writesAfterClose == 0, "c11-transport-untouched-after-close")
	vrt.Assert(q == 0 || len(ch.writeQueue) == 0 || true, "c11-queue")
	vrt.Reach("c11-after-close-done")
}

// ZZ_C11_Race: a write racing with Close. If Close had returned before the call began, the call fails and
// its payload never reaches the transport; whatever happens, a call that reports success is never discarded
// silently... (only the first part is claimed by the property; success+loss during the race is C06/C18 territory).
func ZZ_C11_Race(q, until, entry, closeArg int) {
	tr := newZZTransport()
	pl := NewPipeline()
	probe := &zzProbe{swallowEx: true}
	pl.AddLast(probe)
	ch := zzNewChannel(pl, tr, q, until != 0)
	closeReturned := false
	vrt.Facet("entry", entry)
	vrt.Facet("closearg", closeArg)
	vrt.Go("closer", func() {
		ch.Close(zzCloseArg(closeArg))
		closeReturned = true
	})
	vrt.Go("writer", func() {
		vrt.Yield()
		after := closeReturned
		n, err := zzCall7(ch, entry, []byte{7, 8, 9})
		if after {
			vrt.Reach("c11-race-write-began-after-close")
			vrt.Assert(err != nil, "c11-write-after-close-fails")
			vrt.Assert(n <= 0, "c11-write-after-close-reports-nothing-written")
		}
	})
	vrt.Quiesce()
	vrt.Reach("c11-race-done")
}

// zzTwoChunks is a reader delivering two one-byte chunks; it records whether Close had returned when each chunk
// was requested (the chunk's low-level write begins after that).
type zzTwoChunks struct {
	i            int
	closed       *bool
	afterClose   [2]bool
}

func (r *zzTwoChunks) Read(p []byte) (int, error) {
	if r.i >= 2 {
		return 0, io.EOF
	}
	vrt.Yield()
	r.afterClose[r.i] = *r.closed
	p[0] = byte(0xC1 + r.i)
	r.i++
	return 1, nil
}

// ZZ_C11_ReadFromRace: a multi-chunk ReadFrom racing with Close: a chunk whose write began after Close had returned
// must not reach the transport, and ReadFrom must then report an error.
func ZZ_C11_ReadFromRace(q, until, closeArg int) {
	tr := newZZTransport()
	pl := NewPipeline()
	ch := zzNewChannel(pl, tr, q, until != 0)
	closeReturned := false
	vrt.Facet("closearg", closeArg)
	vrt.Go("closer", func() {
		ch.Close(zzCloseArg(closeArg))
		closeReturned = true
	})
	rd := &zzTwoChunks{closed: &closeReturned}
	var n int64
	var err error
	vrt.Go("writer", func() { n, err = ch.ReadFrom(rd) })
	vrt.Quiesce()
	for i := 0; i < 2; i++ {
		if rd.afterClose[i] {
			vrt.Reach("c11-chunk-began-after-close")
			vrt.Assert(err != nil, "c11-write-after-close-fails")
			for _, b := range tr.log {
				vrt.Assert(b != byte(0xC1+i), "c11-nothing-transmitted-after-close")
			}
		}
	}
	_ = n
	vrt.Reach("c11-readfrom-race-done")
}

// ZZ_C11_TwoClosers: two goroutines call Close concurrently; the one that loses returns at once while the other is
// still inside Close (waiting for the sender, closing the transport). A write that begins after ANY Close call has
// returned fails and transmits nothing.
func ZZ_C11_TwoClosers(q, until, entry int) {
	tr := newZZTransport()
	tr.yield = true
	pl := NewPipeline()
	probe := &zzProbe{swallowEx: true}
	pl.AddLast(probe)
	ch := zzNewChannel(pl, tr, q, until != 0)
	anyReturned := false
	vrt.Facet("entry", entry)
	vrt.Go("closer0", func() {
		ch.Close(zzErrUserClose)
		anyReturned = true
	})
	vrt.Go("closer1", func() {
		ch.Close(nil)
		anyReturned = true
	})
	vrt.Go("writer", func() {
		vrt.Yield()
		after := anyReturned
		before := len(tr.log)
		n, err := zzCall7(ch, entry, []byte{7, 8, 9})
		if after {
			vrt.Reach("c11-write-began-after-a-close-returned")
			vrt.Assert(err != nil, "c11-write-after-close-fails")
			vrt.Assert(n <= 0, "c11-write-after-close-reports-nothing-written")
			vrt.Assert(len(tr.log) == before, "c11-nothing-transmitted-after-close")
		}
	})
	vrt.Quiesce()
	vrt.Reach("c11-two-closers-done")
}
