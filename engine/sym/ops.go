package sym

import (
	"fmt"
	"go/token"
	"go/types"

	"golang.org/x/tools/go/ssa"
)

func (e *Engine) binop(st *State, th *Thread, op token.Token, xt, yt types.Type, x, y Value, in ssa.Instruction) Value {
	tb := e.tb
	if _, ok := x.(Poison); ok {
		return x
	}
	if _, ok := y.(Poison); ok {
		return y
	}
	switch op {
	case token.EQL:
		return e.equal(st, xt, x, y)
	case token.NEQ:
		return tb.Not(e.equal(st, xt, x, y))
	}
	// strings
	if xs, ok := x.(StrV); ok {
		xs = e.sres(st, xs)
		ys := e.sres(st, y.(StrV))
		switch op {
		case token.ADD:
			return e.concat(xs, ys)
		case token.LSS, token.LEQ, token.GTR, token.GEQ:
			a, ok1 := xs.constString()
			b, ok2 := ys.constString()
			if ok1 && ok2 {
				switch op {
				case token.LSS:
					return tb.Bool(a < b)
				case token.LEQ:
					return tb.Bool(a <= b)
				case token.GTR:
					return tb.Bool(a > b)
				default:
					return tb.Bool(a >= b)
				}
			}
			panic(&Unsupported{"ordering of symbolic strings"})
		}
		panic(&Unsupported{"string op " + op.String()})
	}
	a, ok := x.(*Term)
	if !ok {
		panic(&Unsupported{fmt.Sprintf("binop %v on %T", op, x)})
	}
	b := y.(*Term)
	signed := isSigned(xt)
	switch op {
	case token.ADD:
		return tb.Add(a, b)
	case token.SUB:
		return tb.Sub(a, b)
	case token.MUL:
		return tb.Mul(a, b)
	case token.QUO, token.REM:
		if !e.decide(st, tb.Ne(b, tb.Const(b.W, 0))) {
			e.raiseRuntime(st, th, "integer divide by zero")
		}
		if !b.IsConst() {
			// keep symbolic divisors away from the solver where possible
			v := e.concretize(st, b, "divisor")
			b = tb.Const(b.W, v)
		}
		if op == token.QUO {
			if signed {
				return tb.SDiv(a, b)
			}
			return tb.UDiv(a, b)
		}
		if signed {
			return tb.SRem(a, b)
		}
		return tb.URem(a, b)
	case token.AND:
		if a.W == 0 {
			return tb.And(a, b)
		}
		return tb.BAnd(a, b)
	case token.OR:
		if a.W == 0 {
			return tb.Or(a, b)
		}
		return tb.BOr(a, b)
	case token.XOR:
		return tb.BXor(a, b)
	case token.AND_NOT:
		return tb.BAnd(a, tb.BNot(b))
	case token.SHL, token.SHR:
		// shift count: unsigned semantic; negative signed count panics
		if isSigned(yt) {
			if !e.decide(st, tb.SLe(tb.Const(b.W, 0), b)) {
				e.raiseRuntime(st, th, "negative shift amount")
			}
		}
		var cnt *Term
		var big *Term = tb.False
		if b.W > a.W {
			big = tb.ULe(tb.Const(b.W, uint64(a.W)), b)
			cnt = tb.Extract(b, a.W-1, 0)
		} else {
			cnt = tb.ZExt(b, a.W)
		}
		var r, over *Term
		switch {
		case op == token.SHL:
			r = tb.Shl(a, cnt)
			over = tb.Const(a.W, 0)
		case signed:
			r = tb.AShr(a, cnt)
			over = tb.AShr(a, tb.Const(a.W, uint64(a.W-1)))
		default:
			r = tb.LShr(a, cnt)
			over = tb.Const(a.W, 0)
		}
		return tb.Ite(big, over, r)
	case token.LSS:
		if signed {
			return tb.SLt(a, b)
		}
		return tb.ULt(a, b)
	case token.LEQ:
		if signed {
			return tb.SLe(a, b)
		}
		return tb.ULe(a, b)
	case token.GTR:
		if signed {
			return tb.SLt(b, a)
		}
		return tb.ULt(b, a)
	case token.GEQ:
		if signed {
			return tb.SLe(b, a)
		}
		return tb.ULe(b, a)
	}
	panic(&Unsupported{"binop " + op.String()})
}

func (e *Engine) concat(a, b StrV) StrV {
	tb := e.tb
	if s1, ok := a.constString(); ok {
		if s2, ok := b.constString(); ok {
			s := s1 + s2
			return StrV{Arr: tb.ArrLit(s), Off: tb.Int64(0), Len: tb.Int64(int64(len(s)))}
		}
	}
	if a.Len.IsConst() && a.Len.K == 0 {
		return b
	}
	if b.Len.IsConst() && b.Len.K == 0 {
		return a
	}
	arr := tb.ArrCopy(tb.ArrZero(), tb.Int64(0), a.Arr, a.Off, a.Len)
	arr = tb.ArrCopy(arr, a.Len, b.Arr, b.Off, b.Len)
	return StrV{Arr: arr, Off: tb.Int64(0), Len: tb.Add(a.Len, b.Len)}
}

// bytesEqual returns the term "the two byte sequences are equal".
func (e *Engine) bytesEqual(a *ByteArr, aoff, alen *Term, b *ByteArr, boff, blen *Term) *Term {
	tb := e.tb
	leq := tb.Eq(alen, blen)
	if leq.IsFalse() {
		return leq
	}
	var n uint64
	switch {
	case alen.IsConst():
		n = alen.K
	case blen.IsConst():
		n = blen.K
	default:
		panic(&Unsupported{"equality of two byte strings of symbolic length"})
	}
	if n > 1<<12 {
		panic(&Unsupported{"equality of long byte strings"})
	}
	r := leq
	for i := uint64(0); i < n; i++ {
		k := tb.Int64(int64(i))
		r = tb.And(r, tb.Eq(tb.ArrRead(a, tb.Add(aoff, k)), tb.ArrRead(b, tb.Add(boff, k))))
		if r.IsFalse() {
			break
		}
	}
	return r
}

func (e *Engine) equal(st *State, t types.Type, x, y Value) *Term {
	tb := e.tb
	switch a := x.(type) {
	case *Term:
		return tb.Eq(a, y.(*Term))
	case StrV:
		a = e.sres(st, a)
		b := e.sres(st, y.(StrV))
		if s1, ok := a.constString(); ok {
			if s2, ok := b.constString(); ok {
				return tb.Bool(s1 == s2)
			}
		}
		return e.bytesEqual(a.Arr, a.Off, a.Len, b.Arr, b.Off, b.Len)
	case Ptr:
		b, ok := y.(Ptr)
		if !ok {
			return tb.False
		}
		if a.Obj != b.Obj || a.Path != b.Path {
			return tb.False
		}
		if a.Idx != nil && b.Idx != nil {
			return tb.Eq(a.Idx, b.Idx)
		}
		return tb.Bool(a.Idx == b.Idx)
	case IfaceV:
		b := y.(IfaceV)
		if a.T == nil || b.T == nil {
			return tb.Bool(a.T == nil && b.T == nil)
		}
		if !types.Identical(a.T, b.T) {
			return tb.False
		}
		if !types.Comparable(a.T) {
			panic(&Unsupported{"comparing uncomparable dynamic types"})
		}
		return e.equal(st, a.T, a.V, b.V)
	case *StructV:
		b := y.(*StructV)
		r := tb.True
		su := t.Underlying().(*types.Struct)
		for i := range a.F {
			r = tb.And(r, e.equal(st, su.Field(i).Type(), a.F[i], b.F[i]))
		}
		return r
	case *ArrayV:
		b := y.(*ArrayV)
		r := tb.True
		et := t.Underlying().(*types.Array).Elem()
		for i := range a.E {
			r = tb.And(r, e.equal(st, et, a.E[i], b.E[i]))
		}
		return r
	case SliceV: // only comparable to nil
		b := y.(SliceV)
		if b.Obj == 0 && b.Len.IsConst() {
			return tb.Bool(a.Obj == 0)
		}
		if a.Obj == 0 {
			return tb.Bool(b.Obj == 0)
		}
		panic(&Unsupported{"slice comparison"})
	case MapV:
		b := y.(MapV)
		return tb.Bool(a.Obj == b.Obj)
	case ChanV:
		b := y.(ChanV)
		return tb.Bool(a.Obj == b.Obj)
	case FuncV:
		b := y.(FuncV)
		an := a.Fn == nil && a.Blt == nil
		bn := b.Fn == nil && b.Blt == nil
		if an || bn {
			return tb.Bool(an && bn)
		}
		panic(&Unsupported{"func comparison"})
	}
	panic(&Unsupported{fmt.Sprintf("equality on %T", x)})
}

func (e *Engine) convert(st *State, th *Thread, from, to types.Type, v Value) Value {
	tb := e.tb
	if _, ok := v.(Poison); ok {
		return v
	}
	fu, tu := from.Underlying(), to.Underlying()
	// integer conversions
	if x, ok := v.(*Term); ok {
		if isFloat(to) {
			return Poison{"int to float"}
		}
		if isString(to) {
			if x.IsConst() {
				s := string(rune(x.Int()))
				return StrV{Arr: tb.ArrLit(s), Off: tb.Int64(0), Len: tb.Int64(int64(len(s)))}
			}
			panic(&Unsupported{"string(symbolic rune)"})
		}
		if tb2, ok := tu.(*types.Basic); ok && tb2.Kind() == types.UnsafePointer {
			panic(&Unsupported{"uintptr to unsafe.Pointer"})
		}
		w := bvWidth(to)
		if w == 255 {
			panic(&Unsupported{fmt.Sprintf("convert int to %v", to)})
		}
		if x.W == 0 || w == 0 {
			return x
		}
		if w <= x.W {
			return tb.Extract(x, w-1, 0)
		}
		if isSigned(from) {
			return tb.SExt(x, w)
		}
		return tb.ZExt(x, w)
	}
	switch x := v.(type) {
	case StrV:
		if isString(to) {
			return x
		}
		x = e.sres(st, x)
		if sl, ok := tu.(*types.Slice); ok && isByteType(sl.Elem()) {
			// []byte(s): fresh object
			arr := tb.ArrCopy(tb.ArrZero(), tb.Int64(0), x.Arr, x.Off, x.Len)
			if x.Off.IsConst() && x.Off.K == 0 {
				arr = x.Arr
			}
			id := e.allocBytes(st, arr, x.Len)
			st.Heap[id].Site = "[]byte(string)"
			return SliceV{Obj: id, Off: tb.Int64(0), Len: x.Len, Cap: x.Len}
		}
		panic(&Unsupported{fmt.Sprintf("convert string to %v", to)})
	case SliceV:
		if isString(to) {
			arr, off, ln := e.bytesOf(st, x)
			return StrV{Arr: arr, Off: off, Len: ln}
		}
		if _, ok := tu.(*types.Slice); ok {
			return x
		}
		panic(&Unsupported{fmt.Sprintf("convert slice to %v", to)})
	case Ptr:
		return x // pointer <-> unsafe.Pointer, named pointer types
	case *StructV, *ArrayV, FuncV, MapV, ChanV, IfaceV:
		return x
	}
	_ = fu
	panic(&Unsupported{fmt.Sprintf("convert %T from %v to %v", v, from, to)})
}

func (e *Engine) implements(dyn types.Type, iface *types.Interface) bool {
	return types.Implements(dyn, iface)
}

func (e *Engine) execTypeAssert(st *State, th *Thread, fr *Frame, in *ssa.TypeAssert) {
	x := e.get(st, fr, in.X).(IfaceV)
	var ok bool
	var res Value
	if it, isIface := in.AssertedType.Underlying().(*types.Interface); isIface {
		if x.T != nil && e.implements(x.T, it) {
			ok = true
			res = x
		} else {
			res = IfaceV{}
		}
	} else {
		if x.T != nil && types.Identical(x.T, in.AssertedType) {
			ok = true
			res = x.V
		} else {
			res = e.zero(in.AssertedType)
		}
	}
	if in.CommaOk {
		e.setReg(st, th, in, TupleV{res, e.tb.Bool(ok)})
	} else {
		if !ok {
			e.raiseRuntime(st, th, fmt.Sprintf("interface conversion: interface is %v, not %v", x.T, in.AssertedType))
		}
		e.setReg(st, th, in, res)
	}
	e.advance(st, th)
}
