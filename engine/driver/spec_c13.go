package driver

func init() {
	var quick, thorough []*Job
	b := "real NewBootstrap/Listen/Async/Sync/Connect/Shutdown/Listener.Close with a mock transport factory whose acceptor blocks until closed; scenario bits: 1 listener started with Async, 2 an inbound connection is offered, 4 a client Connect runs concurrently, 8 the user also calls Listener.Close, 16 an application handler panics during activation and the exception is swallowed, 32 the id factory repeats an id (second connect refused by the holder); Shutdown runs concurrently with all of it (ALL interleavings); synchronous or queued channels"
	add := func(list *[]*Job, limit int64, args ...int64) {
		j := &Job{Pkg: "", Func: "ZZ_C13_Shutdown", Args: args, Bounds: b}
		if limit > 0 {
			j.Limit = 0
		}
		*list = append(*list, j)
	}
	for _, sc := range []int64{0, 1, 3, 4, 9, 11} {
		add(&quick, 0, sc, 0)
	}
	add(&quick, 0, 1, 2)
	add(&quick, 0, 4, 2)
	add(&quick, 0, 5, 0)
	add(&quick, 0, 20, 0) // connect + activation failure swallowed by the application
	add(&quick, 0, 19, 0) // listen + peer + activation failure
	for _, lf := range []int64{0, 1} {
		quick = append(quick, &Job{Pkg: "", Func: "ZZ_C13_Relisten", Args: []int64{lf}, Bounds: "a listener closed before its accept loop started, the same address listened on and started again, then the first listener's Async (either order), Shutdown concurrently; ALL interleavings"})
	}
	add(&quick, 0, 65, 0) // user context cancelled just before Shutdown (listener)
	add(&quick, 0, 68, 0) // ... with a client connection
	add(&quick, 0, 36, 0) // two connects with the same channel id: the holder refuses the second during activation
	for _, c := range [][]int64{{0, 0, 0}, {16, 8, 0}, {0, 8, 0}, {16, 8, 2}, {16, 0, 0}, {0, 8, 2}} {
		quick = append(quick, &Job{Pkg: "", Func: "ZZ_C13_BufferedClose", Args: c, Bounds: "a channel over the repository's buffered transport wrappers (read / write buffer sizes 0 or >0) on a connection whose writes fail: after Close the connection itself is closed exactly once"})
	}
	add(&thorough, 0, 23, 0)
	add(&thorough, 0, 3, 2)
	add(&thorough, 0, 5, 2)
	add(&thorough, 0, 9, 2)
	add(&thorough, 0, 13, 0)
	thorough = append(thorough, &Job{Pkg: "", Func: "ZZ_C13_Shutdown", Args: []int64{7, 0}, Bounds: b, Limit: 3000e9})
	Specs["C13"] = &Spec{
		Jobs: jobsBy(quick, thorough), Labels: labelFilter("c13-"),
		MustReach: []string{"c13-done", "c13-relisten-done", "c13-buffered-close-done"},
		Bounds: map[string]string{
			"quick":    "one listener, one offered inbound connection, one client connect, optional Listener.Close: scenarios {none, listen, listen+peer, connect, listen+close, listen+peer+close, listen+connect}",
			"thorough": "queued channels for the same scenarios; listen+peer+connect (up to 50 min)",
		},
		Outside:     "real TCP (transport/tcp); more than two listeners; channels whose context was replaced through transport.WithContext (their read loop does not observe the bootstrap context)",
		Assumptions: append([]string{"net/url.Parse returns an opaque well-formed URL; sync.Map modelled as a linearizable map"}, Specs["C01"].Assumptions...),
	}
}
