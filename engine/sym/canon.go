package sym

import (
	"bytes"
	"crypto/md5"
	"encoding/binary"
	"go/types"
	"sort"

	"golang.org/x/tools/go/ssa"
)

// canonicaliser serialises a state up to renaming of heap objects.
type canonicaliser struct {
	e     *Engine
	st    *State
	buf   *bytes.Buffer
	num   []int32 // indexed by ObjID; 0 = not numbered yet
	nnum  int32
	ids   []ObjID // numbered objects in order
	queue []ObjID
	deep  bool
}

func (e *Engine) newCanon(st *State, deep bool, which int) *canonicaliser {
	for len(e.canonBufs) <= which {
		e.canonBufs = append(e.canonBufs, &bytes.Buffer{})
		e.canonNums = append(e.canonNums, nil)
	}
	buf := e.canonBufs[which]
	buf.Reset()
	num := e.canonNums[which]
	need := int(st.NextObj) + 1
	if cap(num) < need {
		num = make([]int32, need, need*2)
	} else {
		num = num[:need]
		for i := range num {
			num[i] = 0
		}
	}
	e.canonNums[which] = num
	return &canonicaliser{e: e, st: st, buf: buf, num: num, deep: deep}
}

func (c *canonicaliser) u8(v uint8)   { c.buf.WriteByte(v) }
func (c *canonicaliser) i32(v int32) {
	var b [4]byte
	binary.LittleEndian.PutUint32(b[:], uint32(v))
	c.buf.Write(b[:])
}
func (c *canonicaliser) str(s string) {
	c.i32(int32(len(s)))
	c.buf.WriteString(s)
}

func (c *canonicaliser) objRef(id ObjID) {
	if id == 0 {
		c.i32(0)
		return
	}
	n := c.num[id]
	if n == 0 {
		c.nnum++
		n = c.nnum
		c.num[id] = n
		if c.deep {
			c.queue = append(c.queue, id)
			c.ids = append(c.ids, id)
		}
	}
	c.i32(n)
}

func (c *canonicaliser) term(t *Term) {
	if t == nil {
		c.i32(-1)
		return
	}
	c.i32(t.ID)
}

func (c *canonicaliser) typ(t types.Type) {
	if t == nil {
		c.i32(-1)
		return
	}
	c.i32(c.e.typeID(t))
}

func (c *canonicaliser) value(v Value) {
	switch x := v.(type) {
	case nil:
		c.u8(0)
	case *Term:
		c.u8(1)
		c.term(x)
	case Ptr:
		c.u8(2)
		c.objRef(x.Obj)
		c.str(x.Path)
		c.term(x.Idx)
	case SliceV:
		c.u8(3)
		c.objRef(x.Obj)
		c.str(x.Base)
		c.term(x.Off)
		c.term(x.Len)
		c.term(x.Cap)
	case StrV:
		c.u8(4)
		if x.Alias != 0 {
			c.objRef(x.Alias)
		} else {
			c.i32(x.Arr.id)
		}
		c.term(x.Off)
		c.term(x.Len)
	case *StructV:
		c.u8(5)
		c.i32(int32(len(x.F)))
		for _, f := range x.F {
			c.value(f)
		}
	case *ArrayV:
		c.u8(6)
		c.i32(int32(len(x.E)))
		for _, f := range x.E {
			c.value(f)
		}
	case IfaceV:
		c.u8(7)
		c.typ(x.T)
		if x.T != nil {
			c.value(x.V)
		}
	case FuncV:
		c.u8(8)
		if x.Fn != nil {
			c.i32(c.e.fnID(x.Fn))
		} else if x.Blt != nil {
			c.str(x.Blt.Name())
		} else {
			c.i32(-1)
		}
		c.i32(int32(len(x.Bind)))
		for _, b := range x.Bind {
			c.value(b)
		}
	case MapV:
		c.u8(9)
		c.objRef(x.Obj)
	case ChanV:
		c.u8(10)
		c.objRef(x.Obj)
	case TupleV:
		c.u8(11)
		c.i32(int32(len(x)))
		for _, f := range x {
			c.value(f)
		}
	case Poison:
		c.u8(12)
	case *IterV:
		c.u8(13)
		c.i32(int32(x.I))
		c.i32(int32(len(x.Keys)))
		for i := range x.Keys {
			c.value(x.Keys[i])
			c.value(x.Vals[i])
		}
	default:
		panic("canon: unknown value kind")
	}
}

func (c *canonicaliser) object(o *Object) {
	c.u8(uint8(o.Kind))
	switch o.Kind {
	case OCells:
		c.value(o.V)
	case OBytes:
		c.i32(o.Arr.id)
		c.term(o.Size)
		if o.InPool {
			c.u8(1)
		}
	case OMap:
		c.i32(int32(len(o.Keys)))
		for i := range o.Keys {
			c.value(o.Keys[i])
			c.value(o.Vals[i])
		}
	case OChan:
		c.i32(int32(o.Cap))
		if o.Closed {
			c.u8(1)
		} else {
			c.u8(0)
		}
		c.i32(int32(len(o.Buf)))
		for _, v := range o.Buf {
			c.value(v)
		}
	}
}

func (c *canonicaliser) thread(th *Thread) {
	c.str(th.Name)
	c.u8(uint8(th.Status))
	flags := uint8(0)
	if th.Parked {
		flags |= 1
	}
	if th.Harness {
		flags |= 2
	}
	if th.OthersStepped {
		flags |= 4
	}
	if th.IsTimer {
		flags |= 8
	}
	if th.ID == 0 {
		flags |= 16
	}
	if th.HasSlept {
		flags |= 32
	}
	c.u8(flags)
	c.i32(int32(th.NoPreempt))
	c.i32(int32(th.NNondet))
	c.i32(int32(th.Sleeps))
	c.i32(int32(th.IdleSleeps))
	c.i32(int32(th.FireNo))
	c.i32(int32(th.VisDone))
	c.term(th.Slept)
	if th.Panic != nil {
		c.u8(1)
		c.value(th.Panic.Val)
	} else {
		c.u8(0)
	}
	c.i32(int32(len(th.Frames)))
	for _, fr := range th.Frames {
		c.i32(c.e.fnID(fr.Fn))
		c.i32(int32(fr.Block.Index))
		c.i32(int32(fr.IP))
		if fr.PrevBlock != nil {
			c.i32(int32(fr.PrevBlock.Index))
		} else {
			c.i32(-1)
		}
		m := fr.Mode
		if fr.IsDefer {
			m |= 4
		}
		if fr.Recovered {
			m |= 8
		}
		c.u8(m)
		for _, r := range fr.Regs {
			c.value(r)
		}
		c.i32(int32(len(fr.Defers)))
		for _, d := range fr.Defers {
			c.value(d.Fn)
			for _, a := range d.Args {
				c.value(a)
			}
		}
	}
	for _, v := range th.VC {
		c.i32(v)
	}
}

func (e *Engine) fnID(fn *ssa.Function) int32 {
	if id, ok := e.fnIDs[fn]; ok {
		return id
	}
	id := int32(len(e.fnIDs) + 1)
	e.fnIDs[fn] = id
	return id
}

func (e *Engine) typeID(t types.Type) int32 {
	if id, ok := e.typePtrIDs[t]; ok {
		return id
	}
	defer func() { e.typePtrIDs[t] = e.typeIDs[types.TypeString(t, nil)] }()
	// types.Type identity: use string form (identical types print identically)
	s := types.TypeString(t, nil)
	if id, ok := e.typeIDs[s]; ok {
		return id
	}
	id := int32(len(e.typeIDs) + 1)
	e.typeIDs[s] = id
	return id
}

// canon reorders the threads of st canonically, drops finished threads, and returns a hash of the state.
func (e *Engine) canon(st *State) [16]byte {
	// 1. drop finished threads
	live := st.Threads[:0:0]
	for _, th := range st.Threads {
		if th.Status == TRun {
			live = append(live, th)
		}
	}
	// 2. order threads by a shallow key
	if len(live) > 1 {
		keys := make([]string, len(live))
		for i, th := range live {
			c := e.newCanon(st, false, 1)
			c.thread(th)
			keys[i] = c.buf.String()
		}
		idx := make([]int, len(live))
		for i := range idx {
			idx[i] = i
		}
		sort.SliceStable(idx, func(a, b int) bool { return keys[idx[a]] < keys[idx[b]] })
		sorted := make([]*Thread, len(live))
		for i, j := range idx {
			sorted[i] = live[j]
		}
		live = sorted
	}
	st.Threads = live
	st.Cur = 0
	// 3. deep serialisation
	c := e.newCanon(st, true, 0)
	c.i32(int32(len(live)))
	for _, th := range live {
		c.thread(th)
	}
	// globals in name order
	gs := e.sortedGlobals
	reuse := len(gs) == len(st.Globals)
	if reuse {
		for _, g := range gs {
			if _, ok := st.Globals[g]; !ok {
				reuse = false
				break
			}
		}
	}
	if !reuse {
		gs = make([]*ssa.Global, 0, len(st.Globals))
		for g := range st.Globals {
			gs = append(gs, g)
		}
		sort.Slice(gs, func(i, j int) bool { return e.globalName(gs[i]) < e.globalName(gs[j]) })
		e.sortedGlobals = gs
	}
	for _, g := range gs {
		c.str(e.globalName(g))
		c.objRef(st.Globals[g])
	}
	// timers, clock, facets
	c.term(st.Clock)
	c.i32(int32(len(st.Timers)))
	for _, tm := range st.Timers {
		c.objRef(tm.Obj)
		c.value(tm.F)
		if tm.Armed {
			c.u8(1)
		} else {
			c.u8(0)
		}
		c.term(tm.Deadline)
		c.i32(int32(tm.Fires))
	}
	for f := st.Facets; f != nil; f = f.prev {
		c.str(f.s)
		c.term(f.t)
	}
	c.i32(int32(st.NFresh))
	c.i32(int32(st.TotalFires))
	c.i32(int32(st.FiresChecked))
	for len(c.queue) > 0 {
		id := c.queue[0]
		c.queue = c.queue[1:]
		c.object(st.obj(id))
		if c.e.Cfg.Race {
			c.shadow(id)
		}
	}
	if e.Cfg.Race {
		for _, v := range st.SyncVC[atomicSectionKey] {
			c.i32(v)
		}
		for _, v := range st.DoneVC {
			c.i32(v)
		}
		// drop monitor state of unreachable objects
		for k := range st.Shadow {
			if k.Obj > 0 && (int(k.Obj) >= len(c.num) || c.num[k.Obj] == 0) {
				delete(st.Shadow, k)
			}
		}
		for k := range st.SyncVC {
			if k.Obj > 0 && (int(k.Obj) >= len(c.num) || c.num[k.Obj] == 0) {
				delete(st.SyncVC, k)
			}
		}
	}
	// garbage-collect unreachable objects (keeps clones cheap)
	if len(st.Heap) > len(c.ids)+64 {
		nh := make(map[ObjID]*Object, len(c.ids))
		for _, id := range c.ids {
			nh[id] = st.Heap[id]
		}
		st.Heap = nh
	}
	return md5.Sum(c.buf.Bytes())
}

func (e *Engine) globalName(g *ssa.Global) string {
	if s, ok := e.globalNames[g]; ok {
		return s
	}
	s := g.String()
	e.globalNames[g] = s
	return s
}
