package netty

import (
	"bytes"
	"context"
	"io"

	"github.com/go-netty/go-netty/internal/vrt"
)

const zzMaxWrites = 6

// zzGhost is the oracle state of the write harnesses. It records relations (never step numbers), so that
// interleavings that differ only in irrelevant order reach identical states and are merged.
type zzGhost struct {
	n        int
	snap     [zzMaxWrites][]byte // payload content at call time
	invoked  [zzMaxWrites]bool
	returned [zzMaxWrites]bool
	ok       [zzMaxWrites]bool
	retN     [zzMaxWrites]int64
	before   [zzMaxWrites][zzMaxWrites]bool // before[a][b]: call a had returned when call b was invoked
	content  string                         // label prefix of the content assertions ("c01" or, with scribbling callers, "c10")
	sent     string                         // label of the "accepted payload was sent" assertion
}

func (g *zzGhost) invoke(id int, p []byte) {
	g.snap[id] = append([]byte(nil), p...)
	for a := 0; a < g.n; a++ {
		g.before[a][id] = g.returned[a]
	}
	g.invoked[id] = true
}

func (g *zzGhost) ret(id int, n int64, err error) {
	g.retN[id] = n
	g.ok[id] = err == nil
	g.returned[id] = true
}

// checkLog parses the transport log (payloads start with a concrete tag id+1) and asserts that it is the
// concatenation of whole, unmodified payloads of accepted-or-in-flight calls, each at most once, in an order
// that respects real time (and therefore each thread's call order).
func (g *zzGhost) checkLog(log []byte, final bool) {
	var seen [zzMaxWrites]bool
	pos := 0
	for pos < len(log) {
		tag := int(log[pos])
		vrt.Assert(tag >= 1 && tag <= g.n, g.content+"-log-starts-with-a-known-payload")
		id := tag - 1
		vrt.Assert(g.invoked[id], "c01-payload-of-an-invoked-call")
		vrt.Assert(!seen[id], "c01-payload-at-most-once")
		vrt.Assert(!(g.returned[id] && !g.ok[id]), "c01-failed-call-contributes-nothing")
		want := g.snap[id]
		vrt.Assert(pos+len(want) <= len(log) || !final, g.content+"-payload-whole")
		if pos+len(want) > len(log) {
			return // a prefix check may see a payload whose tail is still being written
		}
		for i := range want {
			vrt.Assert(log[pos+i] == want[i], g.content+"-payload-unmodified")
		}
		// real-time order: everything that had returned (successfully) before this call began precedes it
		for a := 0; a < g.n; a++ {
			if g.before[a][id] && g.ok[a] && len(g.snap[a]) > 0 {
				vrt.Assert(seen[a], "c01-order-respects-real-time")
			}
		}
		seen[id] = true
		pos += len(want)
	}
	if final {
		for id := 0; id < g.n; id++ {
			if g.returned[id] && g.ok[id] && len(g.snap[id]) > 0 {
				lbl := g.sent
				if lbl == "" {
					lbl = "c02-accepted-payload-was-sent"
				}
				vrt.Assert(seen[id], lbl)
			}
		}
	}
}

// zzCall issues one low-level write through the chosen entry point.
func zzCall(ch *channel, entry int, ctx context.Context, p []byte) (int64, error) {
	switch entry {
	case 0:
		n, err := ch.Write1(p)
		return int64(n), err
	case 1:
		h := len(p) / 2
		return ch.Writev([][]byte{p[:h], p[h:]})
	case 2:
		n, err := ch.CtxWrite1(ctx, p)
		return int64(n), err
	case 3:
		h := (len(p) + 1) / 2
		return ch.CtxWritev(ctx, [][]byte{p[:h], p[h:]})
	case 5:
		return ch.Writev([][]byte{p}) // single-element vector
	case 6:
		return ch.CtxWritev(ctx, [][]byte{p})
	case 7:
		h := len(p) / 2
		return ch.Writev([][]byte{p[:h], {}, p[h:]}) // with an empty element
	default:
		n, err := ch.Writer().Write(p)
		return int64(n), err
	}
}

func zzPayload(id, size int) []byte {
	p := make([]byte, size)
	for i := range p {
		p[i] = vrt.Byte()
	}
	if size > 0 {
		p[0] = byte(id + 1)
	}
	return p
}

// ZZ_C01_Writers: nw writer threads issue ww writes each on one channel (queue q; q==0 synchronous;
// until: blocking queue mode). entries packs one entry point (0..7) per writer, base 8.
// Decides C01 (every transport write and at quiescence), C02 (quiescence) and C10 (callers scribble on
// their buffers right after each call; pooled buffers are havocked on Put).
func ZZ_C01_Writers(q, until, nw, ww, wwOther, entries, sizes, scribble int) {
	tr := newZZTransport()
	// until: 0 non-blocking queue, 1 blocking queue, 2/3 the same with scheduling points inside the transport's
	// Write/Writev/Flush (a transport call is a system call, not an atomic step)
	tr.yield = until >= 2
	until %= 2
	pl := NewPipeline()
	ch := zzNewChannel(pl, tr, q, until != 0)
	g := &zzGhost{n: ww + (nw-1)*wwOther, content: "c01"}
	if scribble != 0 {
		g.content = "c10"
	}
	tr.onWrite = func(p []byte) {}
	checkNow := func() { g.checkLog(tr.log, false) }
	tr.onClose = checkNow
	for w := 0; w < nw; w++ {
		w := w
		entry := entries
		for i := 0; i < w; i++ {
			entry /= 8
		}
		entry %= 8
		vrt.Go("w"+string(rune('0'+w)), func() {
			mine := ww
			base := 0
			if w > 0 {
				mine = wwOther
				base = ww + (w-1)*wwOther
			}
			for k := 0; k < mine; k++ {
				id := base + k
				size := 1 + (sizes+id)%3
				if sizes >= 100 && id == 0 {
					size = 0 // one empty payload
				}
				p := zzPayload(id, size)
				vrt.Yield()
				g.invoke(id, p)
				n, err := zzCall(ch, entry, context.Background(), p)
				g.ret(id, n, err)
				if err == nil {
					vrt.Assert(n == int64(size), "c01-accepted-write-reports-full-length")
				} else {
					vrt.Assert(n == 0, "c01-failed-write-reports-zero")
					vrt.Assert(q > 0 && until == 0 && err == ErrAsyncNoSpace, "c18-only-queue-full-fails-on-open-channel")
					vrt.Reach("c01-queue-full")
				}
				// C10: the caller reuses its buffer immediately
				if scribble != 0 {
					for i := range p {
						p[i] = 0xEE
					}
				}
			}
		})
	}
	dead := vrt.Quiesce()
	vrt.Assert(!dead, "c02-no-thread-left-blocked")
	g.checkLog(tr.log, true)
	vrt.Assert(tr.unflushed == 0, "c02-flushed-after-last-byte")
	vrt.Assert(tr.closes == 0 && ch.IsActive(), "c01-channel-stays-open")
	vrt.Assert(ch.running == idle || q == 0, "c02-sender-released-ownership")
	vrt.Assert(q == 0 || len(ch.writeQueue) == 0, "c02-queue-drained")
	vrt.Reach("c01-quiescent")
}

var zzBigSizes = []int{0, 1, 1023, 1024, 1025, 2048, 65536, 65537}

// ZZ_C01_Sizes: one writer, payload sizes across the pool size classes, every entry point; the second
// (small) write checks order across size classes.
func ZZ_C01_Sizes(q, until, entry, sizeIdx, scribble int) {
	tr := newZZTransport()
	pl := NewPipeline()
	ch := zzNewChannel(pl, tr, q, until != 0)
	n := zzBigSizes[sizeIdx]
	a := vrt.Bytes(n)
	b := []byte{0x42, vrt.Byte()}
	sa := append([]byte(nil), a...)
	sb := append([]byte(nil), b...)
	na, ea := zzCall(ch, entry, context.Background(), a)
	if scribble != 0 {
		for i := 0; i < n && i < 4; i++ {
			a[i] = 0xEE
		}
		if n > 8 {
			a[n-1] = 0xEE
			a[n/2] = 0xEE
		}
	}
	nb, eb := zzCall(ch, (entry+1)%8, context.Background(), b)
	if scribble != 0 {
		b[0], b[1] = 0xEE, 0xEE
	}
	vrt.Assert(ea == nil && eb == nil && na == int64(n) && nb == 2, "c01-accepted-write-reports-full-length")
	if q > 0 {
		dead := vrt.Quiesce()
		vrt.Assert(!dead, "c02-no-thread-left-blocked")
	}
	lbl := "c01"
	if scribble != 0 {
		lbl = "c10"
	}
	vrt.Assert(len(tr.log) == n+2, lbl+"-payload-whole")
	if n > 0 {
		i := vrt.IntIn(0, n-1)
		vrt.Assert(tr.log[i] == sa[i], lbl+"-payload-unmodified")
	}
	vrt.Assert(tr.log[n] == sb[0] && tr.log[n+1] == sb[1], lbl+"-payload-unmodified")
	vrt.Assert(tr.unflushed == 0, "c02-flushed-after-last-byte")
	vrt.Reach("c01-sizes-done")
}

// zzManualExecutor keeps the actions it is given; the harness runs them when it chooses (a sender that
// starts late, on the caller's goroutine: fully sequential).
type zzManualExecutor struct{ pending []Action }

func (e *zzManualExecutor) Exec(a Action) { e.pending = append(e.pending, a) }
func (e *zzManualExecutor) runAll() {
	for len(e.pending) > 0 {
		a := e.pending[0]
		e.pending = e.pending[1:]
		a()
	}
}

// ZZ_C10_Recycle: pool recycling across batches with the precise sync.Pool model, sequentially: `first` payloads
// are accepted and sent in one batch (their buffers are recycled together), then `second` payloads are accepted
// (their buffers may be any of the recycled ones), the callers scribble, the sender runs, and every payload must
// arrive intact and in order.
func ZZ_C10_Recycle(q, first, second, entry int) {
	tr := newZZTransport()
	pl := NewPipeline()
	ex := &zzManualExecutor{}
	ch := newChannelWith(context.Background(), pl, tr, ex, 1, q, true).(*channel)
	pl.(*pipeline).channel = ch
	var want []byte
	id := 0
	for round, count := range []int{first, second} {
		for k := 0; k < count; k++ {
			p := zzPayload(id, 2+id%2)
			id++
			want = append(want, p...)
			n, err := zzCall(ch, (entry+k+round)%8, context.Background(), p)
			vrt.Assert(err == nil && n == int64(len(p)), "c10-accepted")
			for i := range p {
				p[i] = 0xEE
			}
		}
		ex.runAll()
	}
	vrt.Assert(len(tr.log) == len(want), "c10-payload-whole")
	for i := range want {
		if i < len(tr.log) {
			vrt.Assert(tr.log[i] == want[i], "c10-payload-unmodified")
		}
	}
	vrt.Assert(tr.unflushed == 0 && len(ch.writeQueue) == 0, "c10-everything-sent")
	vrt.Reach("c10-recycle-done")
}

// ZZ_C01_Ctx: the context-taking entry points (2 CtxWrite1, 3 CtxWritev, 6 single-element CtxWritev) with a
// context that ends before the call (mode 0) or concurrently with it (mode 1), on a queue that has room: whichever
// way the call goes, a call that reports an error reports zero bytes and contributes nothing to the wire, and a
// call that reports success is transmitted whole.
func ZZ_C01_Ctx(q, until, entry, mode int) {
	tr := newZZTransport()
	pl := NewPipeline()
	ch := zzNewChannel(pl, tr, q, until != 0)
	g := &zzGhost{n: 2, content: "c01"}
	tr.onWrite = func(p []byte) {}
	ctx, cancel := context.WithCancel(context.Background())
	if mode == 0 {
		cancel()
	} else {
		vrt.Go("canceller", func() { cancel() })
	}
	vrt.Go("w0", func() {
		for id := 0; id < 2; id++ {
			size := 1 + id%2
			p := zzPayload(id, size)
			g.invoke(id, p)
			n, err := zzCall(ch, entry, ctx, p)
			g.ret(id, n, err)
			if err == nil {
				vrt.Assert(n == int64(size), "c01-accepted-write-reports-full-length")
				vrt.Reach("c01-ctx-call-accepted")
			} else {
				vrt.Assert(n == 0, "c01-failed-write-reports-zero")
				vrt.Assert(err == context.Canceled || (q > 0 && until == 0 && err == ErrAsyncNoSpace), "c01-ctx-call-fails-only-with-the-context-error")
				vrt.Reach("c01-ctx-call-failed")
			}
			for i := range p {
				p[i] = 0xEE
			}
		}
	})
	dead := vrt.Quiesce()
	vrt.Assert(!dead, "c02-no-thread-left-blocked")
	g.checkLog(tr.log, true)
	vrt.Assert(tr.unflushed == 0, "c02-flushed-after-last-byte")
	vrt.Assert(tr.closes == 0 && ch.IsActive(), "c01-channel-stays-open")
	vrt.Reach("c01-ctx-done")
}

// zzCallR is zzCall plus the streaming entry point: 8 ReadFrom(*bytes.Reader), 9 ReadFrom(plain reader).
func zzCallR(ch *channel, entry int, ctx context.Context, p []byte) (int64, error) {
	switch entry {
	case 8:
		return ch.ReadFrom(bytes.NewReader(p))
	case 9:
		return ch.ReadFrom(&zzFragReader{data: p})
	}
	return zzCall(ch, entry, ctx, p)
}

// ZZ_C10_FailThenRecycle: recycling after a refused call, sequentially (manual executor): the non-blocking queue
// is filled behind a sender that has not started, one more call through `entry` is refused (kind 0: queue full;
// kind 1: additionally with a context that has ended), the sender then drains and recycles, and two more payloads
// are accepted and sent. Every accepted payload arrives intact and in order, the refused one never, and no buffer
// is handed to the pool twice (with the precise pool model two later payloads would then share memory).
func ZZ_C10_FailThenRecycle(q, entry, kind int) {
	tr := newZZTransport()
	pl := NewPipeline()
	ex := &zzManualExecutor{}
	ch := newChannelWith(context.Background(), pl, tr, ex, 1, q, false).(*channel)
	pl.(*pipeline).channel = ch
	var want []byte
	id := 0
	accept := func(e int) {
		p := zzPayload(id, 2+id%2)
		id++
		want = append(want, p...)
		n, err := zzCallR(ch, e, context.Background(), p)
		vrt.Assert(err == nil && n == int64(len(p)), "c10-accepted")
		for i := range p {
			p[i] = 0xEE
		}
	}
	for k := 0; k < q; k++ {
		accept(k % 2)
	}
	ctx, cancel := context.WithCancel(context.Background())
	if kind == 1 {
		cancel()
	}
	p := zzPayload(id, 2)
	id++
	_, err := zzCallR(ch, entry, ctx, p)
	vrt.Assert(err != nil, "c18-full-queue-refuses")
	for i := range p {
		p[i] = 0xEE
	}
	ex.runAll()
	accept(0)
	accept(5)
	ex.runAll()
	vrt.Assert(len(tr.log) == len(want), "c10-payload-whole")
	for i := range want {
		if i < len(tr.log) {
			vrt.Assert(tr.log[i] == want[i], "c10-payload-unmodified")
		}
	}
	vrt.Assert(tr.unflushed == 0 && len(ch.writeQueue) == 0, "c10-everything-sent")
	cancel()
	vrt.Reach("c10-fail-recycle-done")
}

// zzUnitReader hands out `units` two-byte units [0xA0+i, symbolic], one per Read call (each becomes one chunk of
// the streaming entry point).
type zzUnitReader struct {
	units       int
	i           int
	body        [4]byte
	eofWithData bool // the last unit is returned together with io.EOF (what an HTTP body or iotest.DataErrReader does)
}

func (r *zzUnitReader) Read(p []byte) (int, error) {
	if r.i >= r.units {
		return 0, io.EOF
	}
	p[0] = byte(0xA0 + r.i)
	p[1] = r.body[r.i]
	r.i++
	if r.eofWithData && r.i == r.units {
		return 2, io.EOF
	}
	return 2, nil
}

// ZZ_C10_ReadFrom: the streaming entry point (Channel.ReadFrom, used by the head handler for io.Reader messages)
// copies each chunk into a pooled buffer and queues it: with pooled buffers havocked the moment they are Put back
// (and a second writer using Write1 with a scribbling caller), every chunk and every payload must reach the
// transport intact, the reader's chunks in their order. Chunk boundaries / interleaving with the other writer are
// not asserted here (C09's subject). other: bit 0 a second writer, bit 1 the reader returns its last data with io.EOF.
func ZZ_C10_ReadFrom(q, until, units, other int) {
	tr := newZZTransport()
	pl := NewPipeline()
	ch := zzNewChannel(pl, tr, q, until != 0)
	rd := &zzUnitReader{units: units, eofWithData: other&2 != 0}
	other &= 1
	for i := 0; i < units; i++ {
		rd.body[i] = vrt.Byte()
	}
	var rn int64
	var rerr error
	vrt.Go("reader-writer", func() { rn, rerr = ch.ReadFrom(rd) })
	var ob byte
	oerrs := 0
	if other != 0 {
		ob = vrt.Byte()
		vrt.Go("w1", func() {
			p := []byte{0xB0, ob}
			_, err := ch.Write1(p)
			if err != nil {
				oerrs++
			}
			p[0], p[1] = 0xEE, 0xEE
		})
	}
	dead := vrt.Quiesce()
	vrt.Assert(!dead, "c02-no-thread-left-blocked")
	if rerr != nil || oerrs > 0 {
		vrt.Assert(q > 0 && until == 0, "c18-only-queue-full-fails-on-open-channel")
		vrt.Reach("c10-readfrom-refused")
		return
	}
	vrt.Assert(rn == int64(2*units), "c10-readfrom-reports-all-bytes")
	want := 2 * units
	if other != 0 {
		want += 2
	}
	vrt.Assert(len(tr.log) == want, "c10-payload-whole")
	next := 0
	seenOther := false
	for i := 0; i+1 < len(tr.log); i += 2 {
		tag := tr.log[i]
		if tag == 0xB0 {
			vrt.Assert(other != 0 && !seenOther, "c10-payload-unmodified")
			seenOther = true
			vrt.Assert(tr.log[i+1] == ob, "c10-payload-unmodified")
			continue
		}
		vrt.Assert(next < units && tag == byte(0xA0+next), "c10-payload-unmodified")
		if next < units {
			vrt.Assert(tr.log[i+1] == rd.body[next], "c10-payload-unmodified")
		}
		next++
	}
	vrt.Assert(tr.unflushed == 0, "c02-flushed-after-last-byte")
	vrt.Reach("c10-readfrom-done")
}

// ZZ_C01_BigVector: a vectored write whose total crosses the largest pooled size (65536) on a non-blocking queue
// with exactly one free slot behind a sender that has not started (manual executor): the call is either accepted
// whole (one queue slot, transmitted contiguously and intact) or refused and then contributes nothing - never a
// part of it. Afterwards a small write; the sender then runs.
//
//	shape: 0 {1, 65536}   1 {32769, 32768}   2 {65536, 1}   3 {1, 65535} (total exactly 65536)
func ZZ_C01_BigVector(q, entry, shape int) {
	tr := newZZTransport()
	pl := NewPipeline()
	ex := &zzManualExecutor{}
	ch := newChannelWith(context.Background(), pl, tr, ex, 1, q, false).(*channel)
	pl.(*pipeline).channel = ch
	var want []byte
	for k := 0; k < q-1; k++ {
		p := []byte{byte(0x10 + k), vrt.Byte()}
		n, err := ch.Write1(p)
		vrt.Assert(err == nil && n == 2, "c01-accepted-write-reports-full-length")
		want = append(want, p...)
	}
	sizes := [][2]int{{1, 65536}, {32769, 32768}, {65536, 1}, {1, 65535}}[shape]
	a := vrt.Bytes(sizes[0])
	b := vrt.Bytes(sizes[1])
	var n int64
	var err error
	if entry == 3 {
		n, err = ch.CtxWritev(context.Background(), [][]byte{a, b})
	} else {
		n, err = ch.Writev([][]byte{a, b})
	}
	if err == nil {
		vrt.Assert(n == int64(sizes[0]+sizes[1]), "c01-accepted-write-reports-full-length")
		want = append(append(want, a...), b...)
		vrt.Reach("c01-big-vector-accepted")
	} else {
		vrt.Assert(n == 0 && err == ErrAsyncNoSpace, "c01-failed-write-reports-zero")
		vrt.Reach("c01-big-vector-refused")
	}
	ex.runAll()
	tail := []byte{0x7e, vrt.Byte()}
	tn, terr := ch.Write1(tail)
	vrt.Assert(terr == nil && tn == 2, "c01-accepted-write-reports-full-length")
	want = append(want, tail...)
	ex.runAll()
	vrt.Assert(len(tr.log) == len(want), "c01-failed-call-contributes-nothing")
	if len(tr.log) == len(want) {
		i := vrt.IntIn(0, len(want)-1)
		vrt.Assert(tr.log[i] == want[i], "c01-payload-unmodified")
	}
	vrt.Assert(tr.unflushed == 0, "c02-flushed-after-last-byte")
	vrt.Reach("c01-big-vector-done")
}

// ZZ_C10_EmptyWrite: an empty payload that is a view of a caller-owned scratch buffer whose capacity is a pool size
// class (scratch[:0], cap 1024). After it was "sent" the sender recycles what it was given; with the precise pool
// model the next write may receive any pooled buffer as its private copy. The caller keeps using its scratch
// buffer: the next payload must still arrive intact (the caller's memory must never have entered the pool).
func ZZ_C10_EmptyWrite(q, entry int) {
	tr := newZZTransport()
	pl := NewPipeline()
	ex := &zzManualExecutor{}
	ch := newChannelWith(context.Background(), pl, tr, ex, 1, q, true).(*channel)
	pl.(*pipeline).channel = ch
	scratch := make([]byte, 8, 1024)
	n, err := zzCallR(ch, entry, context.Background(), scratch[:0])
	vrt.Assert(err == nil && n == 0, "c10-accepted")
	ex.runAll()
	b := []byte{0x42, vrt.Byte(), vrt.Byte()}
	want := append([]byte(nil), b...)
	n2, err2 := ch.Write1(b)
	vrt.Assert(err2 == nil && n2 == 3, "c10-accepted")
	for i := range b {
		b[i] = 0xEE
	}
	// the caller goes on using its scratch buffer
	full := scratch[:cap(scratch)]
	for i := 0; i < 8; i++ {
		full[i] = 0xDD
	}
	ex.runAll()
	vrt.Assert(len(tr.log) == len(want), "c10-payload-whole")
	for i := range want {
		if i < len(tr.log) {
			vrt.Assert(tr.log[i] == want[i], "c10-payload-unmodified")
		}
	}
	vrt.Reach("c10-empty-write-done")
}
