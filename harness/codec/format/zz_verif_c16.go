package format

import (
	"bytes"
	"encoding/binary"
	"io"

	"github.com/go-netty/go-netty"
	"github.com/go-netty/go-netty/codec/frame"
	"github.com/go-netty/go-netty/internal/vrt"
)

type zzCtx struct {
	out []netty.Message
	in  []netty.Message
}

func (m *zzCtx) Channel() netty.Channel            { return nil }
func (m *zzCtx) Handler() netty.Handler            { return nil }
func (m *zzCtx) Write(message netty.Message)       { m.out = append(m.out, message) }
func (m *zzCtx) Trigger(event netty.Event)         {}
func (m *zzCtx) Close(err error)                   {}
func (m *zzCtx) Attachment() netty.Attachment      { return nil }
func (m *zzCtx) SetAttachment(netty.Attachment)    {}
func (m *zzCtx) HandleWrite(message netty.Message) { m.out = append(m.out, message) }
func (m *zzCtx) HandleRead(message netty.Message)  { m.in = append(m.in, message) }

type zzFrag struct {
	data   []byte
	off    int
	splits int
	eofWD  bool
}

func (s *zzFrag) Read(p []byte) (int, error) {
	rem := len(s.data) - s.off
	if rem == 0 {
		return 0, io.EOF
	}
	if len(p) == 0 {
		return 0, nil
	}
	k := rem
	if len(p) < k {
		k = len(p)
	}
	if k > 1 && s.splits > 0 {
		k = vrt.Concrete(k)
		c := zzSplit(k)
		if c < k {
			s.splits--
			k = c
		}
	}
	copy(p, s.data[s.off:s.off+k])
	s.off += k
	if s.off == len(s.data) && s.eofWD {
		return k, io.EOF
	}
	return k, nil
}

func zzReadAll(r io.Reader, capacity int) []byte {
	buf := make([]byte, capacity)
	n := 0
	for i := 0; i < 64; i++ {
		if n == len(buf) {
			var one [1]byte
			k, err := r.Read(one[:])
			vrt.Assert(k == 0, "reader-longer-than-expected")
			if err != nil {
				return buf[:n]
			}
			continue
		}
		k, err := r.Read(buf[n:])
		n += k
		if err != nil {
			return buf[:n]
		}
	}
	vrt.Cut("readall-iterations")
	return nil
}

func zzFlat(msg netty.Message, capacity int) []byte {
	switch m := msg.(type) {
	case []byte:
		return m
	case [][]byte:
		var w []byte
		for _, b := range m {
			w = append(w, b...)
		}
		return w
	case io.Reader:
		return zzReadAll(m, capacity)
	}
	vrt.Assert(false, "unexpected-carrier-type")
	return nil
}

// ZZ_C16_Text: any byte sequence written as a string through the text codec is received as the identical
// string, whatever carrier the inbound side hands up and with a frame codec underneath.
//
//	path: 0 direct []byte, 1 *bytes.Reader, 2 fragmenting reader, 3 *bytes.Buffer,
//	      4 length-field codec underneath, 5 delimiter codec underneath (string must not contain the delimiter),
//	      6 varint codec underneath, 7 [][]byte of out-of-order views of one buffer
func ZZ_C16_Text(path, big int) {
	n := vrt.Choose(5)
	if big != 0 {
		n = 2049
	}
	raw := vrt.Bytes(n)
	s := string(raw)
	txt := TextCodec()
	w := &zzCtx{}
	txt.HandleWrite(w, s)
	vrt.Assert(len(w.out) == 1, "text-forwards-one-message")
	var inbound netty.Message
	switch path {
	case 0:
		inbound = zzFlat(w.out[0], n+1)
	case 1:
		inbound = bytes.NewReader(zzFlat(w.out[0], n+1))
	case 2:
		inbound = &zzFrag{data: zzFlat(w.out[0], n+1), splits: 2, eofWD: vrt.Choose(2) == 1}
	case 3:
		inbound = bytes.NewBuffer(zzFlat(w.out[0], n+1))
	case 7: // [][]byte whose pieces are out-of-order views of one receive buffer
		flat := zzFlat(w.out[0], n+1)
		if len(flat) >= 3 {
			arr := append([]byte{flat[0], flat[2], flat[1]}, flat[3:]...)
			inbound = [][]byte{arr[0:1], arr[2:3], arr[1:2], arr[3:]}
		} else {
			inbound = [][]byte{flat}
		}
	case 4, 5, 6:
		var fc netty.CodecHandler
		switch path {
		case 4:
			fc = frame.LengthFieldCodec(binary.BigEndian, 4096, 0, 2, 0, 2)
		case 5:
			fc = frame.DelimiterCodec(4096, "\n", true)
			for i := 0; i < n; i++ {
				vrt.Assume(raw[i] != '\n')
			}
		default:
			fc = frame.VarintLengthFieldCodec(4096)
		}
		fw := &zzCtx{}
		fc.HandleWrite(fw, w.out[0])
		vrt.Assert(len(fw.out) == 1, "frame-codec-forwards-one-message")
		wire := zzFlat(fw.out[0], n+8)
		fr := &zzCtx{}
		fc.HandleRead(fr, &zzFrag{data: wire, splits: 1})
		vrt.Assert(len(fr.in) == 1, "frame-codec-delivers-one-frame")
		inbound = fr.in[0]
	}
	r := &zzCtx{}
	txt.HandleRead(r, inbound)
	vrt.Assert(len(r.in) == 1, "text-delivers-one-message")
	got, ok := r.in[0].(string)
	vrt.Assert(ok, "text-delivers-a-string")
	vrt.Assert(len(got) == n, "string-length")
	if n > 0 {
		i := vrt.IntIn(0, n-1)
		vrt.Assert(got[i] == raw[i], "string-content")
	}
	// non-string outbound messages pass through untouched
	w2 := &zzCtx{}
	txt.HandleWrite(w2, raw)
	b, isBytes := w2.out[0].([]byte)
	vrt.Assert(isBytes && len(b) == n, "non-string-passes-through")
	vrt.Reach("c16-text-done")
}

// zzSplit picks the size of a short read out of k available bytes: every size for small k,
// the sizes 1, k/2, k-1 (or no split) for larger k.
func zzSplit(k int) int {
	if k <= 8 {
		return vrt.Choose(k) + 1
	}
	switch vrt.Choose(4) {
	case 0:
		return 1
	case 1:
		return k / 2
	case 2:
		return k - 1
	}
	return k
}

// ZZ_C16_JSON: the JSON codec's wiring under the encoding/json contract stub: the decoder is given exactly the
// frame's bytes with exactly the configured flags; a decode error becomes an exception and nothing is delivered;
// the decoded object itself is delivered; on write the marshalled bytes are forwarded unchanged or the marshal
// error is raised.
func ZZ_C16_JSON(useNumber, disallow int) {
	if !vrt.Symbolic() {
		return // the library itself runs natively; this harness decides the wiring only
	}
	cdc := JSONCodec(useNumber != 0, disallow != 0)
	n := vrt.Choose(4)
	frame := vrt.Bytes(n)
	var inbound netty.Message
	switch vrt.Choose(3) {
	case 0:
		inbound = frame
	case 1:
		inbound = bytes.NewReader(frame)
	default:
		inbound = &zzFrag{data: frame, splits: 1, eofWD: vrt.Choose(2) == 1}
	}
	r := &zzCtx{}
	pv := vrt.Panics(func() { cdc.HandleRead(r, inbound) })
	if pv != nil {
		vrt.Assert(!vrt.IsRuntimeError(pv), "c16-json-exception-is-not-a-runtime-fault")
		vrt.Assert(len(r.in) == 0, "c16-json-error-delivers-nothing")
		vrt.Reach("c16-json-rejected")
	} else {
		vrt.Assert(len(r.in) == 1, "c16-json-delivers-one-object")
		obj, ok := r.in[0].(map[string]interface{})
		vrt.Assert(ok, "c16-json-delivers-a-map")
		got, _ := obj["__frame__"].(string)
		vrt.Assert(len(got) == n, "c16-json-decoder-sees-the-whole-frame")
		if n > 0 {
			i := vrt.IntIn(0, n-1)
			vrt.Assert(got[i] == frame[i], "c16-json-decoder-sees-exactly-the-frame-bytes")
		}
		vrt.Assert(obj["__useNumber__"] == (useNumber != 0), "c16-json-usenumber-applied-iff-configured")
		vrt.Assert(obj["__disallow__"] == (disallow != 0), "c16-json-disallow-applied-iff-configured")
		vrt.Reach("c16-json-decoded")
	}
	// outbound
	w := &zzCtx{}
	msg := map[string]interface{}{"k": 1}
	wv := vrt.Panics(func() { cdc.HandleWrite(w, msg) })
	arg, _ := vrt.JSONLastArg().(map[string]interface{})
	vrt.Assert(arg != nil && len(arg) == 1, "c16-json-marshals-the-message-itself")
	if wv != nil {
		vrt.Assert(len(w.out) == 0, "c16-json-marshal-error-forwards-nothing")
		vrt.Assert(len(vrt.JSONLastMarshal()) == 0, "c16-json-exception-only-on-marshal-error")
	} else {
		vrt.Assert(len(w.out) == 1, "c16-json-forwards-one-message")
		out, ok := w.out[0].([]byte)
		want := vrt.JSONLastMarshal()
		vrt.Assert(ok && len(out) == len(want) && len(want) >= 2, "c16-json-forwards-marshalled-bytes")
		i := vrt.IntIn(0, len(want)-1)
		vrt.Assert(out[i] == want[i], "c16-json-forwards-marshalled-bytes-unchanged")
		vrt.Reach("c16-json-encoded")
		// a second message through the same codec instance: what was forwarded for the first one may still be
		// queued behind it and must not change
		w2 := &zzCtx{}
		if vrt.Panics(func() { cdc.HandleWrite(w2, map[string]interface{}{"k": 2, "j": 3}) }) == nil {
			vrt.Assert(len(w2.out) == 1, "c16-json-forwards-one-message")
			out2, ok2 := w2.out[0].([]byte)
			want2 := vrt.JSONLastMarshal()
			vrt.Assert(ok2 && len(out2) == len(want2), "c16-json-forwards-marshalled-bytes")
			j := vrt.IntIn(0, len(want2)-1)
			vrt.Assert(out2[j] == want2[j], "c16-json-forwards-marshalled-bytes-unchanged")
			vrt.Assert(len(out) == len(want) && out[i] == want[i], "c16-json-earlier-output-unchanged-by-a-later-write")
		}
	}
}

// zzChain hands what a frame codec delivers to the text codec, whose deliveries end in sink.
type zzChain struct {
	zzCtx
	next netty.InboundHandler
	sink *zzCtx
	fail bool
}

type zzFailingSink struct{ zzCtx }

func (c *zzChain) HandleRead(message netty.Message) {
	if c.fail {
		panic("zz: receiver failure")
	}
	c.next.HandleRead(c.sink, message)
}

// ZZ_C16_TextRetained: two messages through the same codec chain (frame codec underneath, text codec on top);
// the receiver keeps both strings and looks at them after the second delivery: each is still the byte sequence
// of its own message. (Go strings are immutable: a received string that changes when later traffic arrives is
// not "the identical string".)
//
//	under: 0 packet codec (one reused read buffer), 1 length-field codec, 2 delimiter codec, 3 varint codec,
//	       4 packet codec after a delivery that failed
func ZZ_C16_TextRetained(under int) {
	n1 := vrt.Choose(3) + 1
	n2 := vrt.Choose(3) + 1
	a := vrt.Bytes(n1)
	b := vrt.Bytes(n2)
	txt := TextCodec()
	var fc netty.CodecHandler
	switch under {
	case 0, 4:
		fc = frame.PacketCodec(8)
	case 1:
		fc = frame.LengthFieldCodec(binary.BigEndian, 4096, 0, 2, 0, 2)
	case 2:
		fc = frame.DelimiterCodec(4096, "\n", true)
		for i := 0; i < n1; i++ {
			vrt.Assume(a[i] != '\n')
		}
		for i := 0; i < n2; i++ {
			vrt.Assume(b[i] != '\n')
		}
	default:
		fc = frame.VarintLengthFieldCodec(4096)
	}
	sink := &zzCtx{}
	chain := &zzChain{next: txt, sink: sink}
	if under == 4 {
		// the receiver fails on a first message (the exception is handled, the channel stays open): the strings that
		// follow are still exactly what was sent
		bad := &zzFailingSink{}
		pv := vrt.Panics(func() { fc.HandleRead(&zzChain{next: txt, sink: &bad.zzCtx, fail: true}, bytes.NewReader([]byte("boom"))) })
		vrt.Assert(pv != nil, "c16-retained-first-delivery-fails")
	}
	if under == 0 || under == 4 {
		// one transport read per packet
		fc.HandleRead(chain, bytes.NewReader(append([]byte(nil), a...)))
		fc.HandleRead(chain, bytes.NewReader(append([]byte(nil), b...)))
	} else {
		// both frames on one stream
		fw := &zzCtx{}
		txt.HandleWrite(fw, string(a))
		txt.HandleWrite(fw, string(b))
		ww := &zzCtx{}
		fc.HandleWrite(ww, fw.out[0])
		fc.HandleWrite(ww, fw.out[1])
		var wire []byte
		wire = append(wire, zzFlat(ww.out[0], n1+8)...)
		wire = append(wire, zzFlat(ww.out[1], n2+8)...)
		src := &zzFrag{data: wire, splits: 1}
		fc.HandleRead(chain, src)
		fc.HandleRead(chain, src)
	}
	vrt.Assert(len(sink.in) == 2, "c16-retained-two-strings-delivered")
	s1, ok1 := sink.in[0].(string)
	s2, ok2 := sink.in[1].(string)
	vrt.Assert(ok1 && ok2, "c16-retained-strings")
	vrt.Assert(len(s1) == n1 && len(s2) == n2, "c16-retained-lengths")
	i := vrt.IntIn(0, n1-1)
	vrt.Assert(s1[i] == a[i], "c16-retained-first-string-unchanged-by-later-traffic")
	j := vrt.IntIn(0, n2-1)
	vrt.Assert(s2[j] == b[j], "c16-retained-second-string-content")
	vrt.Reach("c16-retained-done")
}

// ZZ_C16_JSONTwoFrames: two frames through the same JSON codec instance (under the encoding/json contract stub,
// whose decoder reads ahead like the real one and may leave unconsumed bytes behind): whatever the first frame
// was - valid, followed by trailing bytes, or rejected - the decoder that handles the second frame starts from the
// second frame's first byte and sees exactly its bytes.
func ZZ_C16_JSONTwoFrames(useNumber, disallow int) {
	if !vrt.Symbolic() {
		return
	}
	cdc := JSONCodec(useNumber != 0, disallow != 0)
	n1 := 1 + vrt.Choose(3)
	n2 := vrt.Choose(3)
	f1 := vrt.Bytes(n1)
	f2 := vrt.Bytes(n2)
	r1 := &zzCtx{}
	pv1 := vrt.Panics(func() { cdc.HandleRead(r1, bytes.NewReader(f1)) })
	vrt.Assert((pv1 == nil) == (len(r1.in) == 1), "c16-json-delivers-iff-no-exception")
	r2 := &zzCtx{}
	pv2 := vrt.Panics(func() { cdc.HandleRead(r2, f2) })
	if pv2 != nil {
		vrt.Assert(len(r2.in) == 0, "c16-json-error-delivers-nothing")
		vrt.Reach("c16-json-second-rejected")
		return
	}
	vrt.Assert(len(r2.in) == 1, "c16-json-delivers-one-object")
	obj, ok := r2.in[0].(map[string]interface{})
	vrt.Assert(ok, "c16-json-delivers-a-map")
	got, _ := obj["__frame__"].(string)
	vrt.Assert(len(got) == n2, "c16-json-second-frame-parsed-from-its-own-bytes")
	if n2 > 0 && len(got) == n2 {
		i := vrt.IntIn(0, n2-1)
		vrt.Assert(got[i] == f2[i], "c16-json-second-frame-parsed-from-its-own-bytes")
	}
	vrt.Reach("c16-json-second-decoded")
}
