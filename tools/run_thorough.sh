#!/bin/sh
# runs the thorough tier of the given checks one after another (used with `vp run`)
cd /verif 2>/dev/null || cd "$(dirname "$0")/.."
export VERIF_DIR="$(pwd)"
export GOFLAGS=-mod=mod GOPROXY=off GOSUMDB=off GOTOOLCHAIN=local
(cd engine && go build -o ../bin/gosym ./cmd/gosym) || exit 2
for id in "$@"; do
  s=$(date +%s)
  ./bin/gosym check "$id" thorough > "/tmp/thorough_$id.out" 2>&1
  echo "$id exit=$? secs=$(( $(date +%s) - s )) $(head -c 600 /tmp/thorough_$id.out | tr '\n' ' ')"
done
