package driver

import (
	"flag"
	"runtime/debug"
	"runtime/pprof"
	"fmt"
	"os"
	"strconv"
	"time"

	"verif/engine/sym"
)

func verifDir() string {
	if d := os.Getenv("VERIF_DIR"); d != "" {
		return d
	}
	return "/verif"
}

// Main is the entry point of the gosym command.
func Main(args []string) int {
	debug.SetGCPercent(400)
	if len(args) == 0 {
		fmt.Fprintln(os.Stderr, "usage: gosym run <pkg> <func> [int args...] | gosym check <ID> quick|thorough")
		return 2
	}
	switch args[0] {
	case "run":
		return cmdRun(args[1:])
	case "check":
		return cmdCheck(args[1:])
	case "selftest":
		return cmdSelftest(args[1:])
	}
	fmt.Fprintln(os.Stderr, "unknown command", args[0])
	return 2
}

func cmdRun(args []string) int {
	fs := flag.NewFlagSet("run", flag.ExitOnError)
	trace := fs.Bool("trace", false, "trace instructions")
	filter := fs.String("filter", "", "trace only functions containing this string")
	race := fs.Bool("race", false, "race monitor")
	precise := fs.Bool("poolprecise", false, "precise sync.Pool model")
	spin := fs.Int("spin", 3, "spin cut")
	secs := fs.Int("t", 600, "time limit (s)")
	sto := fs.Int("solvertimeout", 60000, "z3 per-query timeout (ms) before the cvc5 integer-encoding fallback")
	skind := fs.String("solver", "z3", "primary solver: z3 | z3-new | cvc5 | cvc5-int")
	cclock := fs.Bool("concreteclock", false, "concrete clock")
	mtimers := fs.Bool("manualtimers", false, "timers fire only through vrt.RunTimer")
	prof := fs.String("cpuprofile", "", "write cpu profile")
	fs.Parse(args)
	if d := os.Getenv("GOSYM_DEV_REPO"); d != "" {
		RepoDir = d
		fmt.Fprintln(os.Stderr, "development run against", d)
	}
	if *prof != "" {
		f, _ := os.Create(*prof)
		pprof.StartCPUProfile(f)
		defer pprof.StopCPUProfile()
	}
	rest := fs.Args()
	if len(rest) < 2 {
		fmt.Fprintln(os.Stderr, "usage: gosym run [-trace] <pkg-suffix> <func> [int args...]")
		return 2
	}
	l, err := Load(verifDir()+"/harness", nil)
	if err != nil {
		fmt.Fprintln(os.Stderr, err)
		return 2
	}
	fmt.Printf("loaded in %v\n", l.LoadTime)
	var iargs []int64
	for _, a := range rest[2:] {
		v, _ := strconv.ParseInt(a, 0, 64)
		iargs = append(iargs, v)
	}
	job := &Job{ConcreteClock: *cclock, ManualTimers: *mtimers, SolverKind: *skind, SolverFallback: true, SolverTimeoutMs: *sto, Pkg: rest[0], Func: rest[1], Args: iargs, Race: *race, PoolPrecise: *precise, SpinCut: *spin, Limit: time.Duration(*secs) * time.Second}
	res := RunJob(l, job, func(c *sym.Config) { c.Trace = *trace; c.TraceFilter = *filter; c.MaxWitness = 8 })
	for _, w := range res.Witness {
		fmt.Printf("  witness: %v\n", compactInputs(w.Inputs))
	}
	res.Print(os.Stdout)
	if len(res.Incon) > 0 {
		return 2
	}
	if len(res.Viols) > 0 {
		return 1
	}
	return 0
}
