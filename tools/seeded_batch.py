#!/usr/bin/env python3
"""Evaluates every change a sub-agent delivered in a worktree: seeded_batch.py <prop> <worktree> [extra checks...]
Infers the demo's package directory and test names from demo_test.go, then calls seeded_eval.py."""
import glob, os, re, subprocess, sys
prop, wt = sys.argv[1:3]
extra = sys.argv[3:]
PK = {"netty": ".", "netty_test": ".", "frame": "codec/frame", "frame_test": "codec/frame", "format": "codec/format", "format_test": "codec/format",
      "transport": "transport", "transport_test": "transport", "utils": "utils", "utils_test": "utils", "pool": "utils/pool", "pool_test": "utils/pool",
      "pbytes": "utils/pool/pbytes", "pbytes_test": "utils/pool/pbytes", "pbuffer": "utils/pool/pbuffer", "pbuffer_test": "utils/pool/pbuffer",
      "pmath": "utils/pool/internal/pmath", "codec": "codec", "xhttp": "codec/xhttp", "tcp": "transport/tcp", "tcp_test": "transport/tcp"}
for d in sorted(glob.glob(f"{wt}/seeded/*/")):
    if not os.path.exists(d + "patch.diff"):
        continue
    name = os.path.basename(d[:-1])
    demos = [f for f in glob.glob(d + "*_test.go")]
    if not demos:
        print(prop, name, "NO demo_test.go:", os.listdir(d)); continue
    if not os.path.exists(d + "demo_test.go"):
        os.rename(demos[0], d + "demo_test.go")
    src = open(d + "demo_test.go").read()
    pkg = re.search(r"^package\s+(\w+)", src, re.M).group(1)
    tests = re.findall(r"^func (Test\w+)\(", src, re.M)
    flags = os.environ.get("DEMO_FLAGS", "")
    m = re.search(r"^//go:build\s+(\w+)\s*$", src, re.M)
    if m:
        flags += " -tags " + m.group(1)
    env = dict(os.environ, DEMO_FLAGS=flags)
    short = re.sub(r"^C\d\d-", "", name)
    if short != name:
        os.rename(d, f"{wt}/seeded/{short}/"); 
    r = subprocess.run(["python3", "/verif/tools/seeded_eval.py", prop, wt, short, PK.get(pkg, "."), "^(" + "|".join(tests) + ")$"] + extra, env=env, capture_output=True, text=True)
    print((r.stdout + r.stderr).strip().splitlines()[-1] if (r.stdout + r.stderr).strip() else "no output", flush=True)
