package driver

import (
	"encoding/json"
	"fmt"
	"os"
	"os/exec"
	"path/filepath"
	"sort"
	"strconv"
	"strings"
	"sync"
	"time"

	"verif/engine/sym"
)

// ---------------------------------------------------------------------------
// known findings (committed file, never written at run time)

type knownFile struct {
	Known []sym.KnownFinding `json:"known"`
	Fixed []struct {
		Property string `json:"property"`
		Commit   string `json:"commit"`
		What     string `json:"what"`
	} `json:"fixed"`
}

var (
	knownOnce sync.Once
	knownAll  knownFile
)

func knownFor(prop string) []sym.KnownFinding {
	knownOnce.Do(func() {
		data, err := os.ReadFile(verifDir() + "/known_findings.json")
		if err == nil {
			if err := json.Unmarshal(data, &knownAll); err != nil {
				fmt.Fprintln(os.Stderr, "known_findings.json:", err)
			}
		}
	})
	var out []sym.KnownFinding
	for _, k := range knownAll.Known {
		if k.Property == prop {
			out = append(out, k)
		}
	}
	return out
}

// ---------------------------------------------------------------------------

type replayDoc struct {
	Property string          `json:"property"`
	Harness  string          `json:"harness"`
	Pkg      string          `json:"pkg"`
	Args     []int64         `json:"args"`
	Inputs   []sym.ReplayVal `json:"inputs"`
	Label    string          `json:"label"`
	Facets   map[string]int64 `json:"facets,omitempty"`
	Msg      string          `json:"msg,omitempty"`
	Sched    []string        `json:"schedule,omitempty"`
	Multi    bool            `json:"multi,omitempty"`
	EnvChoices int           `json:"env_choices,omitempty"`
	EngineOnly bool          `json:"engine_only,omitempty"`
}

func cmdCheck(args []string) int {
	if len(args) < 2 {
		fmt.Fprintln(os.Stderr, "usage: gosym check <ID> quick|thorough")
		return 2
	}
	id, tier := args[0], args[1]
	if d := os.Getenv("GOSYM_DEV_REPO"); d != "" && os.Getenv("GOSYM_DEV_CHECK") == "1" {
		// development aid only (never set by the registered commands): run the check against a scratch worktree
		RepoDir = d
		fmt.Fprintln(os.Stderr, "development check against", d)
	}
	if t := os.Getenv("VERIF_TIER"); t != "" && len(args) < 2 {
		tier = t
	}
	seed := int64(0)
	if s := os.Getenv("VERIF_SEED"); s != "" {
		seed, _ = strconv.ParseInt(s, 10, 64)
	}
	spec, ok := Specs[id]
	if !ok {
		fmt.Fprintln(os.Stderr, "no check for", id)
		return 2
	}
	start := time.Now()
	l, err := Load(verifDir()+"/harness", nil)
	if err != nil {
		fmt.Println("INCONCLUSIVE: cannot load /repo with the harness overlay:", err)
		writeEvidence(id, tier, seed, spec, nil, nil, 0, 0, time.Since(start).Seconds(), []string{"load failed: " + err.Error()}, 0)
		return 2
	}
	return runCheck(l, id, tier, seed, spec, start, true)
}

// runCheck runs the jobs of one property on a loaded program.
func runCheck(l *Loaded, id, tier string, seed int64, spec *Spec, start time.Time, evidence bool) int {
	jobs := spec.Jobs(tier)
	for _, j := range jobs {
		j.Prop = id
		if tier != "quick" && j.CrossEvery == 0 {
			j.CrossEvery = 25 // thorough tier: every 25th solver query is re-decided by cvc5
		}
		if j.Limit == 0 {
			if tier == "quick" {
				j.Limit = 240 * time.Second
			} else {
				j.Limit = 1500 * time.Second
			}
		}
	}
	// deterministic order; the seed only rotates it
	if len(jobs) > 1 && seed != 0 {
		k := int(uint64(seed) % uint64(len(jobs)))
		jobs = append(jobs[k:], jobs[:k]...)
	}
	results := make([]*JobResult, len(jobs))
	workers := 14
	if len(jobs) < workers {
		workers = len(jobs)
	}
	var wg sync.WaitGroup
	ch := make(chan int)
	for w := 0; w < workers; w++ {
		wg.Add(1)
		go func() {
			defer wg.Done()
			for i := range ch {
				results[i] = RunJob(l, jobs[i], func(c *sym.Config) { c.MaxWitness = 2 })
			}
		}()
	}
	for i := range jobs {
		ch <- i
	}
	close(ch)
	wg.Wait()

	var incon []string
	reached := map[string]int64{}
	var viols []*sym.Violation
	var violJobs []*Job
	for _, r := range results {
		for _, m := range r.Incon {
			incon = append(incon, r.Job.ID()+": "+m)
		}
		for k, v := range r.Reached {
			reached[k] += v
		}
		for _, v := range r.Viols {
			if spec.Labels != nil && !spec.Labels(v.Label) {
				continue // belongs to another property decided by the same harness
			}
			viols = append(viols, v)
			violJobs = append(violJobs, r.Job)
		}
		if os.Getenv("VERIF_VERBOSE") != "" {
			r.Print(os.Stdout)
		}
	}
	for _, lab := range spec.MustReach {
		if reached[lab] == 0 {
			incon = append(incon, "vacuity: label "+lab+" was never reached")
		}
	}
	os.MkdirAll(verifDir()+"/replay", 0o755)
	// --- violations: known findings and new ones
	exit := 0
	nviol := 0
	knownPrinted := map[string]bool{}
	var replayDocs []replayDoc
	var replayPaths []string
	seenViol := map[string]bool{}
	for i, v := range viols {
		if v.Known {
			if !knownPrinted[v.KnownAs] {
				knownPrinted[v.KnownAs] = true
				fmt.Printf("KNOWN-FINDING: property=%s %s\n", id, v.KnownAs)
			}
			continue
		}
		key := v.Label + fmt.Sprint(v.Facets)
		if seenViol[key] {
			continue
		}
		seenViol[key] = true
		j := violJobs[i]
		doc := replayDoc{Property: id, Harness: j.Func, Pkg: j.Pkg, Args: j.Args, Inputs: v.Inputs, Label: v.Label, Facets: v.Facets, Msg: v.Msg, Sched: v.Sched, Multi: len(v.Sched) > 2 || v.EngineOnly || v.Label == "deadlock" || v.Label == "hang" || v.Label == "livelock" || v.Label == "no-progress-loop" || strings.HasPrefix(v.Label, "c10-pooled-buffer-returned"), EnvChoices: v.EnvChoices, EngineOnly: v.EngineOnly}
		path := fmt.Sprintf("%s/replay/%s-%d.json", verifDir(), id, nviol)
		data, _ := json.MarshalIndent(doc, "", " ")
		os.WriteFile(path, data, 0o644)
		replayDocs = append(replayDocs, doc)
		replayPaths = append(replayPaths, path)
		nviol++
	}
	// --- native confirmation of sequential violations and witness replays
	validated := 0
	nativeNote := ""
	if os.Getenv("VERIF_NO_NATIVE") == "" {
		var wpaths []string
		var wpkgs []string
		wn := 0
		for _, r := range results {
			for _, w := range r.Witness {
				if w.Multi || w.EngineOnly || wn >= spec.maxWitness(tier) {
					continue
				}
				doc := replayDoc{Property: id, Harness: r.Job.Func, Pkg: r.Job.Pkg, Args: r.Job.Args, Inputs: w.Inputs, Label: ""}
				path := fmt.Sprintf("%s/replay/%s-witness-%d.json", verifDir(), id, wn)
				data, _ := json.Marshal(doc)
				os.WriteFile(path, data, 0o644)
				wpaths = append(wpaths, path)
				wpkgs = append(wpkgs, r.Job.Pkg)
				wn++
			}
		}
		var vpaths, vpkgs []string
		for i, d := range replayDocs {
			if !d.Multi {
				vpaths = append(vpaths, replayPaths[i])
				vpkgs = append(vpkgs, d.Pkg)
			}
		}
		if len(wpaths)+len(vpaths) > 0 {
			out, err := nativeReplay(l, append(append([]string{}, wpaths...), vpaths...), append(append([]string{}, wpkgs...), vpkgs...))
			if err != nil {
				incon = append(incon, "native replay could not run: "+err.Error())
			} else {
				for _, p := range wpaths {
					switch res := out[p]; {
					case res == "PASS":
						validated++
						os.Remove(p)
					default:
						incon = append(incon, fmt.Sprintf("ENGINE-MISMATCH: witness %s passes in the engine but natively gives %q", p, res))
					}
				}
				for i, d := range replayDocs {
					if d.Multi {
						continue
					}
					res := out[replayPaths[i]]
					if res == "FAIL label="+d.Label {
						validated++
						replayDocs[i].Msg += " [confirmed natively]"
					} else if strings.HasPrefix(res, "FAIL label=") {
						validated++
						replayDocs[i].Msg += " [confirmed natively; the native run fails earlier, at " + strings.TrimPrefix(res, "FAIL ") + "]"
					} else if d.EnvChoices > 0 && (res == "PASS" || strings.HasPrefix(res, "FAIL")) {
						replayDocs[i].Msg += fmt.Sprintf(" [not reproducible natively: the path depends on %d choice(s) of the environment model (sync.Pool hand-out / select tie-break) that a native run cannot force; native result %q]", d.EnvChoices, res)
					} else if strings.HasPrefix(d.Label, "uncaught-panic") && strings.HasPrefix(res, "PANIC") {
						validated++
						replayDocs[i].Msg += " [confirmed natively: " + res + "]"
					} else {
						incon = append(incon, fmt.Sprintf("ENGINE-MISMATCH: violation %s (%s) does not reproduce natively (native result %q)", replayPaths[i], d.Label, res))
						replayDocs[i].Label = "" // do not report
					}
				}
			}
		}
	} else {
		nativeNote = "native replay disabled by VERIF_NO_NATIVE"
	}
	for i, d := range replayDocs {
		if d.Label == "" {
			continue
		}
		fmt.Printf("VIOLATION property=%s replay=%s\n", id, replayPaths[i])
		fmt.Printf("  %s facets=%v\n", d.Msg, d.Facets)
		exit = 1
	}
	wall := time.Since(start).Seconds()
	nv := 0
	if exit == 1 {
		nv = nviol
	}
	if evidence {
		writeEvidence(id, tier, seed, spec, l, results, validated, nv, wall, incon, l.LoadTime.Seconds())
	}
	_ = nativeNote
	if exit == 1 {
		return 1
	}
	if len(incon) > 0 {
		for _, m := range incon {
			fmt.Println("INCONCLUSIVE:", m)
		}
		return 2
	}
	fmt.Printf("OK property=%s tier=%s jobs=%d wall=%.1fs\n", id, tier, len(jobs), wall)
	return 0
}

// nativeReplay runs the given replay files against the real build (go test -overlay) and returns file -> result.
func nativeReplay(l *Loaded, files []string, pkgs []string) (map[string]string, error) {
	out := map[string]string{}
	byPkg := map[string][]string{}
	for i, f := range files {
		byPkg[pkgs[i]] = append(byPkg[pkgs[i]], f)
	}
	tmp, err := os.MkdirTemp("", "gosym-replay-")
	if err != nil {
		return nil, err
	}
	defer os.RemoveAll(tmp)
	replace := map[string]string{}
	for repoPath := range l.Overlay {
		if content, ok := l.Extra[repoPath]; ok {
			f := filepath.Join(tmp, "extra_"+strings.ReplaceAll(strings.TrimPrefix(repoPath, "/"), "/", "_"))
			if err := os.WriteFile(f, content, 0o644); err != nil {
				return nil, err
			}
			replace[repoPath] = f
			continue
		}
		rel, _ := filepath.Rel(RepoDir, repoPath)
		replace[repoPath] = filepath.Join(l.HarnessDir, rel)
	}
	var pkgNames []string
	for p := range byPkg {
		pkgNames = append(pkgNames, p)
	}
	sort.Strings(pkgNames)
	for _, p := range pkgNames {
		sp := l.Pkgs[pkgPath(p)]
		if sp == nil {
			return nil, fmt.Errorf("package %s not loaded", p)
		}
		var names []string
		for name := range sp.Members {
			if strings.HasPrefix(name, "ZZ_") {
				if sp.Func(name) != nil {
					names = append(names, name)
				}
			}
		}
		sort.Strings(names)
		var sb strings.Builder
		fmt.Fprintf(&sb, "package %s\n\nimport (\n\t\"testing\"\n\n\t\"%s\"\n)\n\nfunc TestZZReplay(t *testing.T) {\n\tvrt.Replay(t, map[string]interface{}{\n", sp.Pkg.Name(), VrtPath)
		for _, n := range names {
			fmt.Fprintf(&sb, "\t\t%q: %s,\n", n, n)
		}
		sb.WriteString("\t})\n}\n")
		gen := filepath.Join(tmp, strings.ReplaceAll(p, "/", "_")+"_zz_verif_replay_test.go")
		if err := os.WriteFile(gen, []byte(sb.String()), 0o644); err != nil {
			return nil, err
		}
		replace[filepath.Join(RepoDir, p, "zz_verif_replay_test.go")] = gen
	}
	ovData, _ := json.Marshal(map[string]interface{}{"Replace": replace})
	ovPath := filepath.Join(tmp, "overlay.json")
	os.WriteFile(ovPath, ovData, 0o644)
	for _, p := range pkgNames {
		target := "./" + p
		if p == "" {
			target = "."
		}
		cmd := exec.Command("go", "test", "-mod=mod", "-vet=off", "-count=1", "-timeout", "300s", "-overlay", ovPath, "-run", "^TestZZReplay$", "-v", target)
		cmd.Dir = RepoDir
		cmd.Env = append(os.Environ(), "GOFLAGS=-mod=mod", "GOPROXY=off", "GOSUMDB=off", "GOTOOLCHAIN=local", "VRT_REPLAY="+strings.Join(byPkg[p], ","))
		data, err := cmd.CombinedOutput()
		text := string(data)
		found := 0
		for _, line := range strings.Split(text, "\n") {
			if strings.HasPrefix(line, "VRT-RESULT file=") {
				rest := strings.TrimPrefix(line, "VRT-RESULT file=")
				if i := strings.Index(rest, " result="); i > 0 {
					out[rest[:i]] = rest[i+len(" result="):]
					found++
				}
			}
		}
		if found < len(byPkg[p]) {
			// the test binary died (e.g. uncaught panic in a goroutine, fatal error): report what we saw
			tail := text
			if len(tail) > 1500 {
				tail = tail[len(tail)-1500:]
			}
			for _, f := range byPkg[p] {
				if _, ok := out[f]; !ok {
					if strings.Contains(text, "panic:") || strings.Contains(text, "fatal error:") {
						out[f] = "PANIC (process died): " + firstLineWith(text, "panic:", "fatal error:")
					} else {
						return out, fmt.Errorf("go test in %s: %v\n%s", p, err, tail)
					}
				}
			}
		}
	}
	return out, nil
}

func firstLineWith(text string, keys ...string) string {
	for _, line := range strings.Split(text, "\n") {
		for _, k := range keys {
			if strings.Contains(line, k) {
				return strings.TrimSpace(line)
			}
		}
	}
	return ""
}

// ---------------------------------------------------------------------------
// evidence

func writeEvidence(id, tier string, seed int64, spec *Spec, l *Loaded, results []*JobResult, validated, nviol int, wall float64, incon []string, loadS float64) {
	var states, transitions, queries, sat, unsat, unknown, cached, instrs, paths, merged, asserts, assertQ, forks int64
	var solverS float64
	var crossChecked, crossDisagree, fallbackQ int
	funcs := map[string]int64{}
	stubs := map[string]int64{}
	cuts := map[string]int64{}
	reach := map[string]int64{}
	assertStats := map[string][3]int64{}
	var samples []interface{}
	var jobInfos []map[string]interface{}
	for _, r := range results {
		if r == nil {
			continue
		}
		s := r.Stats
		states += s.States
		transitions += s.Transitions
		instrs += s.Instrs
		paths += s.Paths
		merged += s.Merged
		asserts += s.Asserts
		assertQ += s.AssertQ
		forks += s.Forks
		queries += int64(r.Queries)
		sat += int64(r.Sat)
		unsat += int64(r.Unsat)
		unknown += int64(r.Unknown)
		cached += int64(r.CacheHit)
		solverS += r.SolverS
		crossChecked += r.CrossChecked
		crossDisagree += r.CrossDisagree
		fallbackQ += r.FallbackQueries
		for k, v := range r.Funcs {
			funcs[k] += v
		}
		for k, v := range r.Stubs {
			stubs[k] += v
		}
		for k, v := range r.Cuts {
			cuts[k] += v
		}
		for k, v := range r.Reached {
			reach[k] += v
		}
		for k, a := range r.Asserts {
			x := assertStats[k]
			x[0] += a.Checked
			x[1] += a.Solver
			x[2] += a.Violated
			assertStats[k] = x
		}
		ji := map[string]interface{}{"job": r.Job.ID(), "args": r.Job.Args, "states": s.States, "transitions": s.Transitions,
			"paths": s.Paths, "layers": s.Layers, "queries": r.Queries, "wall_s": round2(r.WallS), "solver_s": round2(r.SolverS)}
		if r.Job.Bounds != "" {
			ji["bounds"] = r.Job.Bounds
		}
		jobInfos = append(jobInfos, ji)
		for _, w := range r.Witness {
			if len(samples) < 6 {
				samples = append(samples, map[string]interface{}{"kind": "witness inputs of a completed path (satisfy its path condition)", "harness": r.Job.ID(), "inputs": compactInputs(w.Inputs), "schedule_steps": len(w.Sched)})
			}
		}
		for _, v := range r.Viols {
			if len(samples) < 10 {
				samples = append(samples, map[string]interface{}{"kind": "counterexample", "known": v.Known, "label": v.Label, "facets": v.Facets, "harness": r.Job.ID(), "inputs": compactInputs(v.Inputs), "schedule": v.Sched})
			}
		}
	}
	if len(samples) == 0 {
		samples = append(samples, map[string]interface{}{"kind": "none", "note": "no path completed"})
	}
	// repository functions encoded (executed symbolically), most executed first
	type fc struct {
		n string
		c int64
	}
	var repoFns []fc
	var otherFns int
	for k, v := range funcs {
		if strings.Contains(k, "go-netty") && !strings.Contains(k, "ZZ_") && !strings.Contains(k, "/internal/vrt") && !strings.Contains(k, "zz") {
			repoFns = append(repoFns, fc{k, v})
		} else {
			otherFns++
		}
	}
	sort.Slice(repoFns, func(i, j int) bool { return repoFns[i].n < repoFns[j].n })
	var encoded []string
	for _, f := range repoFns {
		encoded = append(encoded, f.n)
	}
	var stubNames []string
	for k := range stubs {
		stubNames = append(stubNames, k)
	}
	sort.Strings(stubNames)
	ast := map[string]interface{}{}
	for k, v := range assertStats {
		ast[k] = map[string]int64{"instances": v[0], "needed_solver": v[1], "violated": v[2]}
	}
	if states < 1 {
		states = 1
	}
	if transitions < 1 {
		transitions = 1
	}
	cov := map[string]interface{}{
		"states":                        states,
		"transitions":                   transitions,
		"traces_validated_against_impl": validated,
		"samples":                       samples,
		"explanation": "symbolic execution of the SSA of /repo's current working tree (go/ssa) by the gosym engine; every assertion instance is a check-sat of (path condition ∧ ¬assertion) on z3; states = symbolic states after merging, transitions = thread steps between visible operations (or whole paths for sequential harnesses)",
		"exhaustive":                   len(incon) == 0,
		"bounds":                       spec.Bounds[tier],
		"outside_bounds":               spec.Outside,
		"functions_encoded":            encoded,
		"stdlib_and_harness_functions_executed": otherFns,
		"stubs_hit":                    stubNames,
		"instructions_executed":        instrs,
		"paths_completed":              paths,
		"states_merged":                merged,
		"forks":                        forks,
		"assertion_instances":          asserts,
		"assertion_instances_sent_to_solver": assertQ,
		"assertions":                   ast,
		"queries":                      map[string]int64{"total": queries, "sat": sat, "unsat": unsat, "unknown": unknown, "cache_hits": cached},
		"solver":                       "z3 4.8.12 (one long-lived process per job, push/pop)",
		"solver_s":                     round2(solverS),
		"cross_solver":                 map[string]int{"queries_rechecked_on_cvc5": crossChecked, "disagreements": crossDisagree, "queries_decided_by_cvc5_bv_as_int_fallback": fallbackQ},
		"load_and_ssa_build_s":         round2(loadS),
		"reach_labels":                 reach,
		"cuts":                         cuts,
		"jobs":                         jobInfos,
		"inconclusive":                 incon,
	}
	ev := map[string]interface{}{
		"property_id": id,
		"tier":        tier,
		"seed":        seed,
		"level":       "model_checking",
		"coverage":    cov,
		"assumptions": spec.Assumptions,
		"wall_s":      round2(wall),
		"violations":  nviol,
	}
	os.MkdirAll(verifDir()+"/evidence", 0o755)
	data, _ := json.MarshalIndent(ev, "", " ")
	os.WriteFile(verifDir()+"/evidence/"+id+".json", data, 0o644)
}

func round2(f float64) float64 { return float64(int64(f*100+0.5)) / 100 }

func compactInputs(in []sym.ReplayVal) []interface{} {
	var out []interface{}
	for i, v := range in {
		if i >= 24 {
			out = append(out, fmt.Sprintf("... %d more", len(in)-i))
			break
		}
		if v.Kind == "bytes" {
			b := v.Bytes
			if len(b) > 24 {
				b = b[:24]
			}
			out = append(out, map[string]interface{}{"bytes_len": v.Int, "prefix": b})
		} else {
			out = append(out, map[string]interface{}{v.Kind: v.Int})
		}
	}
	return out
}
