package sym

import (
	"bytes"
	"fmt"
	"go/token"
	"go/types"
	"sort"
	"strings"
	"time"

	"golang.org/x/tools/go/ssa"
)

type Config struct {
	MaxSteps      int // per path instruction budget
	MaxCallDepth  int
	MaxStates     int // per job
	SpinCut       int // contended sleeps allowed per thread
	Race          bool
	Deadline      time.Time
	MaxViolations int
	Trace         bool
	TraceFilter   string
	VrtPath       string // import path of the vrt package
	ModulePrefix  string
	HarnessFiles  map[string]bool
	MaxWitness    int
	BudgetViolation bool
	SolverTimeoutMs int
	CrossEvery      int
	SolverKind      string
	SolverFallback  bool
	MaxTimerFires int
	ConcreteClock bool // time.Now does not let time pass; the clock stays concrete
	ManualTimers  bool // timers fire only when the harness calls vrt.RunTimer (synchronously)
}

type Stats struct {
	Instrs      int64
	Clones      int64
	Forks       int64
	Paths       int64 // completed paths (terminal states)
	States      int64 // symbolic states after merging (scheduling points) + terminal
	Transitions int64
	Merged      int64
	Livelocked  int64
	Revisits    int64 // states reached again in a later layer (cycles); not re-explored
	Layers      int
	Asserts     int64 // assertion instances checked
	AssertQ     int64 // assertion instances that needed the solver
	Killed      int64 // paths ended by Assume(false) or infeasibility
	CutPaths    int64
	MaxFrontier int
	Havocs      int64
	PoolPuts    int64
	PoolHits    int64
}

type Violation struct {
	Label   string
	Msg     string
	Facets  map[string]int64
	Inputs  []ReplayVal
	Sched   []string
	Pos     string
	Known   bool
	EngineOnly bool
	EnvChoices int
	KnownAs string
	state   *State
}

type ReplayVal struct {
	Kind  string  `json:"kind"`
	Int   int64   `json:"int,omitempty"`
	Bytes []int   `json:"bytes,omitempty"`
	Name  string  `json:"name,omitempty"`
}

type AssertStat struct {
	Label    string
	Checked  int64
	Solver   int64
	Violated int64
}

type Engine struct {
	Prog   *ssa.Program
	tb     *TB
	sol    *Solver
	gen    int
	infos  map[*ssa.Function]*fnInfo
	work   []*State
	Stats  Stats
	Cfg    Config
	Viols  []*Violation
	Reached map[string]int64
	Asserts map[string]*AssertStat
	Incon  []string // reasons the run is inconclusive
	Funcs  map[string]int64 // functions executed (full name -> instruction count)
	Stubs  map[string]int64 // stubs hit
	CutsTotal map[string]int64
	Known  []KnownFinding
	KnownHit map[string]bool
	stubTab map[string]stubFn
	redirect map[string]*ssa.Function
	vrt    *ssa.Package
	boot   *State
	inInit bool
	rtErrString types.Type
	Samples []map[string]interface{}
	typeCache map[string]types.Type
	visibleFn map[string]bool
	enabledFn map[string]enabledFn
	fnIDs     map[*ssa.Function]int32
	typeIDs   map[string]int32
	PoolPrecise bool
	raceSeen  map[string]bool
	stopped   bool
	fnCount   map[*ssa.Function]int64
	canonBufs []*bytes.Buffer
	canonNums [][]int32
	sortedGlobals []*ssa.Global
	globalNames map[*ssa.Global]string
	typePtrIDs map[types.Type]int32
	DecideProfile map[string]int
	Witnesses []Witness
}

// Witness is a sample of a completed path: concrete inputs satisfying its path condition.
type Witness struct {
	Inputs []ReplayVal
	Multi  bool
	EngineOnly bool
	Sched  []string
}

type KnownFinding struct {
	Property string           `json:"property"`
	Label    string           `json:"label"`
	Facets   map[string]int64 `json:"facets,omitempty"`
	What     string           `json:"what"`
}

type killPath struct{ why string }
type ctlUnwind struct{}

func NewEngine(prog *ssa.Program, cfg Config) (*Engine, error) {
	tb := NewTB()
	to := 60000
	if cfg.SolverTimeoutMs > 0 {
		to = cfg.SolverTimeoutMs
	}
	kind := "z3"
	if cfg.SolverKind != "" {
		kind = cfg.SolverKind
	}
	sol, err := NewSolver(tb, kind, to)
	if err != nil {
		return nil, err
	}
	e := &Engine{Prog: prog, tb: tb, sol: sol, Cfg: cfg, infos: map[*ssa.Function]*fnInfo{},
		Reached: map[string]int64{}, Asserts: map[string]*AssertStat{}, Funcs: map[string]int64{}, Stubs: map[string]int64{},
		CutsTotal: map[string]int64{}, KnownHit: map[string]bool{}, typeCache: map[string]types.Type{}, fnCount: map[*ssa.Function]int64{}, globalNames: map[*ssa.Global]string{}, typePtrIDs: map[types.Type]int32{}}
	if e.Cfg.MaxSteps == 0 {
		e.Cfg.MaxSteps = 3000000
	}
	if e.Cfg.MaxCallDepth == 0 {
		e.Cfg.MaxCallDepth = 200
	}
	if e.Cfg.MaxStates == 0 {
		e.Cfg.MaxStates = 3000000
	}
	if e.Cfg.SpinCut == 0 {
		e.Cfg.SpinCut = 3
	}
	if e.Cfg.MaxTimerFires == 0 {
		e.Cfg.MaxTimerFires = 3
	}
	if e.Cfg.MaxViolations == 0 {
		e.Cfg.MaxViolations = 8
	}
	sol.Fallback = cfg.SolverFallback
	sol.CrossEvery = cfg.CrossEvery
	e.initStubs()
	return e, nil
}

func (e *Engine) Close() { e.sol.Close() }
func (e *Engine) TB() *TB     { return e.tb }
func (e *Engine) Solver() *Solver { return e.sol }

func (e *Engine) inconclusive(format string, args ...interface{}) {
	msg := fmt.Sprintf(format, args...)
	for _, m := range e.Incon {
		if m == msg {
			return
		}
	}
	if len(e.Incon) < 50 {
		e.Incon = append(e.Incon, msg)
	}
}

func (e *Engine) info(fn *ssa.Function) *fnInfo {
	if fi, ok := e.infos[fn]; ok {
		return fi
	}
	fi := &fnInfo{idx: map[ssa.Value]int{}}
	n := 0
	for _, p := range fn.Params {
		fi.idx[p] = n
		n++
	}
	for _, p := range fn.FreeVars {
		fi.idx[p] = n
		n++
	}
	for _, b := range fn.Blocks {
		for _, ins := range b.Instrs {
			if v, ok := ins.(ssa.Value); ok {
				fi.idx[v] = n
				n++
			}
		}
	}
	fi.nregs = n
	fi.harness = e.isHarnessFn(fn)
	e.infos[fn] = fi
	return fi
}

func (e *Engine) isHarnessFn(fn *ssa.Function) bool {
	root := fn
	for root.Parent() != nil {
		root = root.Parent()
	}
	if root.Pkg != nil && root.Pkg.Pkg.Path() == e.Cfg.VrtPath {
		return true
	}
	pos := root.Pos()
	if pos == token.NoPos && root.Synthetic != "" {
		// wrappers/thunks: decide by receiver's method origin
		if o := root.Object(); o != nil {
			pos = o.Pos()
		}
	}
	if pos != token.NoPos {
		f := e.Prog.Fset.Position(pos).Filename
		if strings.Contains(f, "zz_verif_") {
			return true
		}
	}
	return false
}

func (e *Engine) posStr(p token.Pos) string {
	if p == token.NoPos {
		return "?"
	}
	ps := e.Prog.Fset.Position(p)
	f := ps.Filename
	if i := strings.LastIndex(f, "/repo/"); i >= 0 {
		f = f[i+6:]
	} else if i := strings.LastIndex(f, "/src/"); i >= 0 {
		f = f[i+5:]
	}
	return fmt.Sprintf("%s:%d", f, ps.Line)
}

// where returns a short description of the current location of thread th.
func (e *Engine) where(th *Thread) string {
	var parts []string
	for i := len(th.Frames) - 1; i >= 0 && len(parts) < 6; i-- {
		fr := th.Frames[i]
		pos := token.NoPos
		if fr.Block != nil && fr.IP < len(fr.Block.Instrs) {
			pos = fr.Block.Instrs[fr.IP].Pos()
		}
		s := fr.Fn.String()
		if pos != token.NoPos {
			s += "@" + e.posStr(pos)
		}
		parts = append(parts, s)
	}
	return strings.Join(parts, " <- ")
}

func (e *Engine) sortedKeys(m map[string]int64) []string {
	ks := make([]string, 0, len(m))
	for k := range m {
		ks = append(ks, k)
	}
	sort.Strings(ks)
	return ks
}

// ---------------------------------------------------------------------------
// decisions / forking

// decide returns the truth value of c on the current path, forking when both are feasible.
func (e *Engine) decide(st *State, c *Term) bool { return e.decide2(st, c, false) }

// decide2: knownSat says (pc ∧ c) is already known to be satisfiable.
func (e *Engine) decide2(st *State, c *Term, knownSat bool) bool {
	if c.W != 0 {
		panic("decide on non-bool")
	}
	if c.IsConst() {
		return c.K != 0
	}
	if v, ok := st.forced[c.ID]; ok {
		return v
	}
	tb := e.tb
	if e.DecideProfile != nil {
		th := st.thread()
		if fr := th.top(); fr != nil && fr.Mode == 0 && fr.IP < len(fr.Block.Instrs) {
			e.DecideProfile[fr.Fn.String()+"@"+e.posStr(fr.Block.Instrs[fr.IP].Pos())+" "+fr.Block.Instrs[fr.IP].String()]++
		}
	}
	if e.sol.Err != nil {
		e.inconclusive("solver failure: %v", e.sol.Err)
		panic(killPath{"solver failure"})
	}
	rt := ResSat
	if !knownSat {
		rt = e.sol.Check(st.PC, c)
	}
	if rt == ResUnknown {
		e.inconclusive("solver unknown on branch feasibility")
	}
	var rf Result
	if rt == ResUnsat {
		rf = ResSat // pc assumed feasible
	} else {
		rf = e.sol.Check(st.PC, tb.Not(c))
		if rf == ResUnknown {
			e.inconclusive("solver unknown on branch feasibility")
		}
	}
	if st.forced == nil {
		st.forced = map[int32]bool{}
	}
	switch {
	case rt != ResUnsat && rf != ResUnsat:
		n := e.clone(st)
		// the clone re-executes the current instruction from its start: undo counters
		n.thread().NNondet = st.snapNondet
		n.NFresh = st.snapFresh
		n.Log = st.snapLog
		n.Facets = st.snapFacets
		n.NextObj = st.snapObj
		n.EnvChoices = st.snapEnv
		n.PC = tb.And(st.PC, tb.Not(c))
		if n.forced == nil {
			n.forced = map[int32]bool{}
		}
		n.forced[c.ID] = false
		e.work = append(e.work, n)
		st.PC = tb.And(st.PC, c)
		st.forced[c.ID] = true
		e.Stats.Forks++
		return true
	case rt != ResUnsat:
		st.forced[c.ID] = true
		return true
	default:
		st.forced[c.ID] = false
		return false
	}
}

// concretize returns a concrete value for t, forking over all feasible values (bounded).
func (e *Engine) concretize(st *State, t *Term, what string) uint64 {
	if t.IsConst() {
		return t.K
	}
	tb := e.tb
	for i := 0; i < 70; i++ {
		res, m := e.sol.CheckModel(st.PC, nil, t)
		if res == ResUnknown {
			e.inconclusive("solver unknown in concretize(%s)", what)
			panic(killPath{"unknown"})
		}
		if res == ResUnsat {
			panic(killPath{"infeasible"})
		}
		vals, err := m.Eval([]*Term{t})
		m.Release()
		if err != nil {
			e.inconclusive("model eval failed: %v", err)
			panic(killPath{"eval"})
		}
		v := vals[0]
		if e.decide2(st, tb.Eq(t, tb.Const(t.W, v)), true) {
			return v
		}
		// decide returned false: this value is infeasible?? (cannot happen right after a model) – loop
	}
	panic(&Unsupported{"concretize: too many feasible values for " + what})
}

// forkFresh forks n ways on a fresh variable v constrained only by v < n (every value is
// feasible by construction, so no solver call is needed). Returns the value on this path.
func (e *Engine) forkFresh(st *State, v *Term, n int) int {
	tb := e.tb
	if n <= 1 {
		st.PC = tb.And(st.PC, tb.Eq(v, tb.Const(v.W, 0)))
		return 0
	}
	for i := 0; i < n; i++ {
		if st.forced[tb.Eq(v, tb.Const(v.W, uint64(i))).ID] {
			return i
		}
	}
	if st.forced == nil {
		st.forced = map[int32]bool{}
	}
	for i := n - 1; i >= 1; i-- {
		c := tb.Eq(v, tb.Const(v.W, uint64(i)))
		nst := e.clone(st)
		nst.thread().NNondet = st.snapNondet
		nst.NFresh = st.snapFresh
		nst.Log = st.snapLog
		nst.Facets = st.snapFacets
		nst.NextObj = st.snapObj
		nst.EnvChoices = st.snapEnv
		nst.PC = tb.And(st.PC, c)
		if nst.forced == nil {
			nst.forced = map[int32]bool{}
		}
		nst.forced[c.ID] = true
		e.work = append(e.work, nst)
		e.Stats.Forks++
	}
	c0 := tb.Eq(v, tb.Const(v.W, 0))
	st.PC = tb.And(st.PC, c0)
	st.forced[c0.ID] = true
	return 0
}

func (e *Engine) assume(st *State, c *Term) {
	if c.IsTrue() {
		return
	}
	if c.IsFalse() {
		panic(killPath{"assume false"})
	}
	st.PC = e.tb.And(st.PC, c)
	if r := e.sol.Check(st.PC, nil); r == ResUnsat {
		panic(killPath{"assume infeasible"})
	} else if r == ResUnknown {
		e.inconclusive("solver unknown on assume")
	}
}

// FuncCounts returns the executed functions (full name -> instructions executed).
func (e *Engine) FuncCounts() map[string]int64 {
	out := map[string]int64{}
	for fn, n := range e.fnCount {
		out[fn.String()] += n
	}
	return out
}
