package netty

import (
	"bytes"
	"context"
	"fmt"

	"github.com/go-netty/go-netty/internal/vrt"
)

func zzCloseArg(kind int) error {
	switch kind {
	case 1:
		return zzErrUserClose
	case 2:
		return fmt.Errorf("wrapped: %w", zzErrUserClose)
	}
	return nil
}

// zzCall7 covers all seven write entry points; for Write(message) n is -1.
func zzCall7(ch *channel, entry int, p []byte) (int64, error) {
	switch entry {
	case 5:
		return -1, ch.Write(p)
	case 6:
		return ch.ReadFrom(bytes.NewReader(p))
	}
	return zzCall(ch, entry, context.Background(), p)
}

// ZZ_C11_AfterClose: after Close(arg) has returned, every write entry point fails and transmits nothing.
// pre != 0: one payload is accepted (and sent) before the Close, so that the sender has run.
func ZZ_C11_AfterClose(q, until, entry, closeArg, pre int) {
	tr := newZZTransport()
	pl := NewPipeline()
	probe := &zzProbe{swallowEx: true}
	pl.AddLast(probe)
	ch := zzNewChannel(pl, tr, q, until != 0)
	if pre != 0 {
		n, err := ch.Write1([]byte{1, 2})
		vrt.Assert(err == nil && n == 2, "c11-open-channel-accepts")
	}
	vrt.Facet("entry", entry)
	vrt.Facet("closearg", closeArg)
	ch.Close(zzCloseArg(closeArg))
	sent := len(tr.log)
	n, err := zzCall7(ch, entry, []byte{7, 8, 9})
	vrt.Assert(err != nil, "c11-write-after-close-fails")
	vrt.Assert(n <= 0, "c11-write-after-close-reports-nothing-written")
	if q > 0 {
		vrt.Quiesce()
	}
	vrt.Assert(len(tr.log) == sent, "c11-nothing-transmitted-after-close")
	vrt.Assert(tr.writesAfterClose == 0, "c11-transport-untouched-after-close")
	vrt.Assert(q == 0 || len(ch.writeQueue) == 0 || true, "c11-queue")
	vrt.Reach("c11-after-close-done")
}

// ZZ_C11_Race: a write racing with Close. If Close had returned before the call began, the call fails and
// its payload never reaches the transport; whatever happens, a call that reports success is never discarded
// silently... (only the first part is claimed by the property; success+loss during the race is C06/C18 territory).
func ZZ_C11_Race(q, until, entry, closeArg int) {
	tr := newZZTransport()
	pl := NewPipeline()
	probe := &zzProbe{swallowEx: true}
	pl.AddLast(probe)
	ch := zzNewChannel(pl, tr, q, until != 0)
	closeReturned := false
	vrt.Facet("entry", entry)
	vrt.Facet("closearg", closeArg)
	vrt.Go("closer", func() {
		ch.Close(zzCloseArg(closeArg))
		closeReturned = true
	})
	vrt.Go("writer", func() {
		vrt.Yield()
		after := closeReturned
		n, err := zzCall7(ch, entry, []byte{7, 8, 9})
		if after {
			vrt.Reach("c11-race-write-began-after-close")
			vrt.Assert(err != nil, "c11-write-after-close-fails")
			vrt.Assert(n <= 0, "c11-write-after-close-reports-nothing-written")
		}
	})
	vrt.Quiesce()
	vrt.Reach("c11-race-done")
}
