package pool

import "github.com/go-netty/go-netty/internal/vrt"

// ZZ_C19_PutGet: one inductive step over the generic pool (precise sync.Pool model).
// A shard is a memoryless multiset, so "for every history" reduces to: for every object of
// capacity c that Put files, every Get(n) that can draw it satisfies c >= n.
func ZZ_C19_PutGet(max int) {
	p := New[*[]byte](max)
	c := vrt.Int()
	n := vrt.Int()
	vrt.Assume(0 <= c && c <= 1<<62 && 0 <= n && n <= 1<<62)
	var obj []byte
	x := &obj
	p.Put(x, c)
	got, cls := p.Get(n)
	vrt.Assert(cls >= n, "class>=n")
	vrt.Assert(cls&(cls-1) == 0 || cls == p.stepSize, "class-is-a-size-class")
	if got != nil {
		vrt.Reach("c19-reuse")
		vrt.Assert(got == x, "get-returns-put-object")
		vrt.Assert(c >= n, "reused-capacity>=n")
		// handed out at most once
		again, _ := p.Get(n)
		vrt.Assert(again == nil, "handed-out-once")
	} else {
		vrt.Reach("c19-miss")
	}
}

// ZZ_C19_Index: Get never indexes outside the shard array and small sizes share the step class.
func ZZ_C19_Index(max int) {
	p := New[*[]byte](max)
	n := vrt.Int()
	vrt.Assume(0 <= n && n <= 1<<62)
	sz := p.size(n)
	vrt.Assert(sz >= n && sz >= p.stepSize, "size>=n")
	idx := (sz - 1) / p.stepSize
	vrt.Assert(idx >= 0, "index-nonnegative")
	if idx < len(p.pool) {
		vrt.Reach("c19-index-in-range")
	}
	_, cls := p.Get(n)
	vrt.Assert(cls == sz, "get-reports-class")
}
