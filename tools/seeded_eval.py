#!/usr/bin/env python3
"""Verifies a seeded change delivered by a sub-agent and runs the checks against it.
usage: seeded_eval.py <prop> <agent_worktree> <name> <demo_dir> <demo_run_regex> [extra checks...]
Keeps the change under /verif/seeded/<prop>-<name>/ with meta.json."""
import json, os, shutil, subprocess, sys, time
prop, wt, name, demo_dir, run_re = sys.argv[1:6]
extra = sys.argv[6:]
src = f"{wt}/seeded/{name}" if wt != "-" else f"/verif/seeded/{prop}-{name}"
env = dict(os.environ, GOFLAGS="-mod=mod", GOPROXY="off", GOSUMDB="off", GOTOOLCHAIN="local")
def sh(cmd, cwd, timeout=900):
    p = subprocess.run(cmd, shell=True, cwd=cwd, env=env, capture_output=True, text=True, timeout=timeout)
    return p.returncode, (p.stdout + p.stderr)
scratch = f"/tmp/sv_{prop}_{name}"
subprocess.run(f"git -C /repo worktree remove --force {scratch}", shell=True, capture_output=True)
rc, out = sh(f"git -C /repo worktree add -q --detach {scratch} HEAD", "/")
assert rc == 0, out
meta = {"property": prop, "name": name, "source": "independent sub-agent given only the property text and a scratch worktree", "ran": []}
try:
    demo_target = os.path.join(scratch, demo_dir, "zz_seeded_demo_test.go")
    shutil.copy(f"{src}/demo_test.go", demo_target)
    pkg = "./" + demo_dir if demo_dir != "." else "."
    democmd = f"go test -mod=mod -vet=off -count=1 -timeout 300s {os.environ.get('DEMO_FLAGS','')} -run '{run_re}' {pkg}"
    rc0, out0 = sh(democmd, scratch)
    meta["demo_without_change"] = "pass" if rc0 == 0 else "FAIL"
    rc, out = sh(f"git apply {src}/patch.diff", scratch)
    assert rc == 0, "patch does not apply: " + out
    rcb, outb = sh("go build ./...", scratch)
    meta["builds"] = rcb == 0
    os.remove(demo_target)
    suite_ok = False
    for attempt in range(4):
        rcs, outs = sh("go test -mod=mod -vet=off -count=1 ./...", scratch)
        if rcs == 0:
            suite_ok = True
            break
        if "address already in use" not in outs:
            break
        time.sleep(3)
    meta["suite_with_change"] = "pass" if suite_ok else "FAIL"
    shutil.copy(f"{src}/demo_test.go", demo_target)
    rc1, out1 = sh(democmd, scratch)
    meta["demo_with_change"] = "fail (as required)" if rc1 != 0 else "PASSES (change not demonstrated)"
    meta["demo_cmd"] = democmd + f"   (demo copied to {demo_dir}/zz_seeded_demo_test.go)"
    meta["ran"].append("scratch worktree: demo without change, build + full suite with change, demo with change")
finally:
    subprocess.run(f"git -C /repo worktree remove --force {scratch}", shell=True, capture_output=True)
# detection: apply to /repo, run checks, undo
ok_keep = meta.get("demo_without_change") == "pass" and meta.get("suite_with_change") == "pass" and meta.get("demo_with_change", "").startswith("fail")
meta["confirmed"] = ok_keep
results = {}
if ok_keep:
    rc, out = sh(f"git -C /repo apply {src}/patch.diff", "/")
    assert rc == 0, out
    try:
        for cid in [prop] + extra:
            t = time.time()
            rc, out = sh(f"./check {cid} quick", "/verif", timeout=1800)
            first = [l for l in out.splitlines() if l.startswith("VIOLATION") or l.startswith("INCONCLUSIVE") or l.startswith("OK")][:1]
            detail = [l.strip() for l in out.splitlines() if l.startswith("  ")][:1]
            results[cid] = {"exit": rc, "secs": round(time.time() - t), "line": (first[0] if first else "")[:200], "detail": (detail[0] if detail else "")[:260]}
    finally:
        sh("git -C /repo checkout -- .", "/")
    meta["ran"].append("git -C /repo apply patch.diff; ./check <id> quick for each listed check; git -C /repo checkout -- .")
meta["checks"] = results
meta["caught_by"] = [c for c, r in results.items() if r["exit"] == 1]
notes = open(f"{src}/notes.md").read()
meta["needs_to_manifest"] = notes[:1500]
dst = f"/verif/seeded/{prop}-{name}"
os.makedirs(dst, exist_ok=True)
for f in ("patch.diff", "demo_test.go", "notes.md"):
    if os.path.abspath(src) != os.path.abspath(dst):
        shutil.copy(f"{src}/{f}", f"{dst}/{f}")
json.dump(meta, open(f"{dst}/meta.json", "w"), indent=1)
print(prop, name, "confirmed" if ok_keep else "NOT-CONFIRMED", {k: v["exit"] for k, v in results.items()}, meta.get("demo_with_change"), meta.get("suite_with_change"))
