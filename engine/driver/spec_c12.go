package driver

func init() {
	var quick, thorough []*Job
	b := "happens-before (vector clock) monitor over every plain memory access of repository and standard-library code while two or three user goroutines invoke public operations concurrently and the framework's goroutines (read loop, sender, timer callbacks, accept loop) run; ALL interleavings at synchronisation granularity; operations: 0 Write1, 1 Writev, 2 Write(message), 3 Trigger, 4 Close(err), 5 IsActive+Context, 6 CtxWrite1, 7 Close(nil), 8 ReadFrom"
	ch := func(list *[]*Job, args ...int64) {
		*list = append(*list, &Job{Pkg: "", Func: "ZZ_C12_Channel", Args: args, Bounds: b, Race: true, ConcreteClock: true})
	}
	// (q, opA, opB, opC)
	pairs := [][]int64{{0, 4}, {2, 7}, {3, 4}, {5, 4}, {6, 4}, {1, 0}, {4, 4}, {8, 4}, {2, 3}, {1, 7}}
	for i, p := range pairs {
		ch(&quick, int64(i%2)*2, p[0], p[1], -1)
		ch(&thorough, int64((i+1)%2)*2, p[0], p[1], -1)
	}
	ch(&thorough, 2, 0, 2, 4)
	ch(&thorough, 0, 1, 5, 7)
	ch(&thorough, 1, 0, 6, 4)
	for _, sc := range []int64{0, 1, 2, 4} {
		quick = append(quick, &Job{Pkg: "", Func: "ZZ_C12_Bootstrap", Args: []int64{sc}, Bounds: b + "; bootstrap scenario bits: 1 Listener.Close, 2 Connect, 4 inbound connection, 8 second Listen+Async", Race: true, ConcreteClock: true})
	}
	for _, sc := range []int64{8, 5} { // scenario 3 (Close+Connect) exceeds 40 min in race mode
		thorough = append(thorough, &Job{Pkg: "", Func: "ZZ_C12_Bootstrap", Args: []int64{sc}, Bounds: b, Race: true, ConcreteClock: true, Limit: 2400e9})
	}
	for _, c := range [][]int64{{0, 0}, {0, 1}, {1, 0}, {1, 1}} {
		quick = append(quick, &Job{Pkg: "", Func: "ZZ_C12_Idle", Args: c, Bounds: "idle handler timer callbacks (<=2 expirations) against one traffic event and the inactive event", Race: true, ConcreteClock: true, MaxTimerFires: 2})
	}
	for _, c := range [][]int64{{0, 1, 1}, {0, 0, 10}, {0, 2, 6}, {0, 1, 0}, {0, 10, 2}, {1, 1, 0}, {0, 8, 1}} {
		quick = append(quick, &Job{Pkg: "", Func: "ZZ_C12_Buffered", Args: c, Bounds: "two concurrent writers (Write1 / Writev / Write / CtxWrite1 / CtxWritev / ReadFrom) on a channel over the repository's real write-buffered transport (bufio.Writer is monitored state)", Race: true, ConcreteClock: true})
	}
	quick = append(quick, &Job{Pkg: "", Func: "ZZ_C12_Pool", Bounds: "two goroutines Get/Put on the shared byte pool", Race: true})
	quick = append(quick, &Job{Pkg: "utils/pool/pbuffer", Func: "ZZ_C19_BufferHandOver", Args: []int64{65536, 100}, Bounds: "a pooled bytes.Buffer handed from one goroutine to another through the pool (precise pool model; Put(x) happens before the Get that returns x)", Race: true, PoolPrecise: true})
	quick = append(quick, &Job{Pkg: "transport", Func: "ZZ_C12_ParseOptions", Bounds: "two concurrent transport.ParseOptions calls (what Connect / Listen do first) over one caller-owned option slice with spare capacity", Race: true})
	for _, c := range [][]int64{{0}, {1}} {
		quick = append(quick, &Job{Pkg: "transport/tcp", Func: "ZZ_C12_Options", Args: c, Bounds: "two concurrent Connect/Listen option resolutions (tcp.FromContext) over one caller-owned *tcp.Options value", Race: true})
	}
	Specs["C12"] = &Spec{
		Jobs: jobsBy(quick, thorough), Labels: labelFilter("c12-"),
		MustReach: []string{"c12-channel-done", "c12-bootstrap-done", "c12-idle-done", "c12-pool-done", "c12-buffered-done", "c12-tcp-options-done", "c12-parse-options-done"},
		Bounds: map[string]string{
			"quick":    "10 pairs of channel operations on synchronous / queue-2 channels; bootstrap scenarios {Shutdown vs starting listener, +Listener.Close, +Connect, +inbound connection}; idle handlers with 2 timer expirations; pool Get/Put",
			"thorough": "the same pairs on the other channel kind, three triples, bootstrap scenarios with a second listener and combinations",
		},
		Outside:     "pipeline mutation while events flow and attachment accessors (excluded by the statement); sync.Pool / sync.Map / context internals (modelled; the models' atomic sections act as one global lock, which can hide a race between accesses adjacent to two unrelated primitives but never invents one); more than 3 concurrently invoked operations",
		Assumptions: append([]string{"the solver decides feasibility of the racy path; the race predicate itself is computed by the vector-clock monitor on each symbolic state"}, Specs["C01"].Assumptions...),
	}
}
