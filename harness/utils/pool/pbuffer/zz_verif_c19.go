package pbuffer

import (
	"bytes"

	"github.com/go-netty/go-netty/internal/vrt"
)

// ZZ_C19_Buffer: Put of an arbitrary bytes.Buffer followed by Get(n).
func ZZ_C19_Buffer(max int) {
	p := New(max)
	c := vrt.Int()
	n := vrt.Int()
	vrt.Assume(0 <= c && c <= 1<<40 && 0 <= n && n <= 1<<40)
	foreign := bytes.NewBuffer(make([]byte, 0, c))
	p.Put(foreign)
	g := p.Get(n)
	vrt.Assert(g != nil, "get-non-nil")
	vrt.Assert(g.Cap() >= n, "cap>=n")
	vrt.Assert(g.Len() == 0, "buffer-is-reset")
	if g == foreign {
		vrt.Reach("c19-buffer-reuse")
	}
	h := p.Get(n)
	vrt.Assert(h != g, "exclusive-ownership")
}
