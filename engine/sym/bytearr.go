package sym

import (
	"sort"
)

// ByteArr is an immutable functional byte array indexed by BV64 terms.
// Reads are expanded by the engine into ite-terms; only reads of a base
// symbol reach the solver (as an uninterpreted function BV64 -> BV8).
type ByteArr struct {
	kind akind
	prev *ByteArr
	name string // baSym
	lit  string // baLit
	idx  *Term  // baStore
	val  *Term  // baStore
	// baCopy: bytes [doff, doff+n) come from src[soff ...]
	doff, soff, n *Term
	src           *ByteArr
	cs            map[uint64]*Term // baCStore: constant-index overlay
	id            int32
}

type akind uint8

const (
	baZero akind = iota
	baSym
	baLit
	baStore
	baCopy
	baCStore
)

type akey struct {
	kind       akind
	prev, src  int32
	a, b, c, d int32
	name       string
}

func (tb *TB) mkArr(k akey, build func() *ByteArr) *ByteArr {
	if a, ok := tb.arrTab[k]; ok {
		return a
	}
	a := build()
	tb.arrN++
	a.id = int32(tb.arrN)
	tb.arrTab[k] = a
	return a
}

func (tb *TB) ArrZero() *ByteArr {
	return tb.mkArr(akey{kind: baZero}, func() *ByteArr { return &ByteArr{kind: baZero} })
}

func (tb *TB) ArrSym(name string) *ByteArr {
	return tb.mkArr(akey{kind: baSym, name: name}, func() *ByteArr { return &ByteArr{kind: baSym, name: name} })
}

func (tb *TB) ArrLit(s string) *ByteArr {
	return tb.mkArr(akey{kind: baLit, name: s}, func() *ByteArr { return &ByteArr{kind: baLit, lit: s} })
}

func aid(a *ByteArr) int32 {
	if a == nil {
		return 0
	}
	return a.id
}

func (tb *TB) ArrStore(a *ByteArr, idx, val *Term) *ByteArr {
	if idx.W != 64 || val.W != 8 {
		panic("ArrStore widths")
	}
	if idx.IsConst() {
		// constant overlay
		if a.kind == baCStore {
			if old, ok := a.cs[idx.K]; ok && old == val {
				return a
			}
			return tb.mkArr(akey{kind: baCStore, prev: a.id, a: idx.ID, b: val.ID}, func() *ByteArr {
				m := make(map[uint64]*Term, len(a.cs)+1)
				for k, v := range a.cs {
					m[k] = v
				}
				m[idx.K] = val
				return &ByteArr{kind: baCStore, prev: a.prev, cs: m}
			})
		}
		return tb.mkArr(akey{kind: baCStore, prev: a.id, a: idx.ID, b: val.ID}, func() *ByteArr {
			return &ByteArr{kind: baCStore, prev: a, cs: map[uint64]*Term{idx.K: val}}
		})
	}
	return tb.mkArr(akey{kind: baStore, prev: a.id, a: idx.ID, b: val.ID}, func() *ByteArr {
		return &ByteArr{kind: baStore, prev: a, idx: idx, val: val}
	})
}

// ArrCopy returns dst with bytes [doff,doff+n) replaced by src[soff, soff+n).
func (tb *TB) ArrCopy(dst *ByteArr, doff *Term, src *ByteArr, soff, n *Term) *ByteArr {
	if n.IsConst() {
		if n.K == 0 {
			return dst
		}
		// small constant copies with constant offsets: expand into stores (keeps reads cheap)
		if n.K <= 64 && doff.IsConst() && soff.IsConst() {
			out := dst
			// read all first (src may alias dst; semantics of copy is memmove)
			vals := make([]*Term, n.K)
			for i := uint64(0); i < n.K; i++ {
				vals[i] = tb.ArrRead(src, tb.Const(64, soff.K+i))
			}
			for i := uint64(0); i < n.K; i++ {
				out = tb.ArrStore(out, tb.Const(64, doff.K+i), vals[i])
			}
			return out
		}
	}
	return tb.mkArr(akey{kind: baCopy, prev: dst.id, src: src.id, a: doff.ID, b: soff.ID, c: n.ID}, func() *ByteArr {
		return &ByteArr{kind: baCopy, prev: dst, src: src, doff: doff, soff: soff, n: n}
	})
}

// ArrRead expands a read of array a at index idx.
func (tb *TB) ArrRead(a *ByteArr, idx *Term) *Term {
	if idx.W != 64 {
		panic("ArrRead idx width")
	}
	key := [2]int32{a.id, idx.ID}
	if t, ok := tb.readMem[key]; ok {
		return t
	}
	var r *Term
	switch a.kind {
	case baZero:
		r = tb.Const(8, 0)
	case baSym:
		r = tb.ReadSym(a.name, idx)
	case baLit:
		if idx.IsConst() {
			if idx.K < uint64(len(a.lit)) {
				r = tb.Const(8, uint64(a.lit[idx.K]))
			} else {
				r = tb.Const(8, 0)
			}
		} else {
			if len(a.lit) > 4096 {
				panic(&Unsupported{"symbolic index into literal longer than 4096"})
			}
			r = tb.Const(8, 0)
			for i := len(a.lit) - 1; i >= 0; i-- {
				r = tb.Ite(tb.Eq(idx, tb.Const(64, uint64(i))), tb.Const(8, uint64(a.lit[i])), r)
			}
		}
	case baStore:
		c := tb.Eq(idx, a.idx)
		if c.IsTrue() {
			r = a.val
		} else if c.IsFalse() {
			r = tb.ArrRead(a.prev, idx)
		} else {
			r = tb.Ite(c, a.val, tb.ArrRead(a.prev, idx))
		}
	case baCStore:
		if idx.IsConst() {
			if v, ok := a.cs[idx.K]; ok {
				r = v
			} else {
				r = tb.ArrRead(a.prev, idx)
			}
		} else {
			keys := make([]uint64, 0, len(a.cs))
			for k := range a.cs {
				keys = append(keys, k)
			}
			sort.Slice(keys, func(i, j int) bool { return keys[i] < keys[j] })
			r = tb.ArrRead(a.prev, idx)
			for i := len(keys) - 1; i >= 0; i-- {
				r = tb.Ite(tb.Eq(idx, tb.Const(64, keys[i])), a.cs[keys[i]], r)
			}
		}
	case baCopy:
		// in range iff (idx - doff) <u n   (n < 2^63, no wrap-around in practice)
		rel := tb.Sub(idx, a.doff)
		c := tb.ULt(rel, a.n)
		if c.IsTrue() {
			r = tb.ArrRead(a.src, tb.Add(rel, a.soff))
		} else if c.IsFalse() {
			r = tb.ArrRead(a.prev, idx)
		} else {
			r = tb.Ite(c, tb.ArrRead(a.src, tb.Add(rel, a.soff)), tb.ArrRead(a.prev, idx))
		}
	}
	tb.readMem[key] = r
	return r
}

// FreshSym returns a new base array symbol with a deterministic name.
func (tb *TB) FreshArr(prefix string) *ByteArr {
	tb.symN++
	return tb.ArrSym(prefix + "_" + itoa(tb.symN))
}

func itoa(n int) string {
	if n == 0 {
		return "0"
	}
	neg := n < 0
	if neg {
		n = -n
	}
	var b [20]byte
	i := len(b)
	for n > 0 {
		i--
		b[i] = byte('0' + n%10)
		n /= 10
	}
	if neg {
		i--
		b[i] = '-'
	}
	return string(b[i:])
}

// Unsupported is raised (as a Go panic) when the engine meets something it cannot encode.
type Unsupported struct{ Why string }

func (u *Unsupported) Error() string { return "unsupported: " + u.Why }
