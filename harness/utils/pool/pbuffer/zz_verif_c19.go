package pbuffer

import (
	"bytes"

	"github.com/go-netty/go-netty/internal/vrt"
)

// ZZ_C19_Buffer: Put of an arbitrary bytes.Buffer followed by Get(n).
func ZZ_C19_Buffer(max int) {
	p := New(max)
	c := vrt.Int()
	n := vrt.Int()
	vrt.Assume(0 <= c && c <= 1<<40 && 0 <= n && n <= 1<<40)
	foreign := bytes.NewBuffer(make([]byte, 0, c))
	p.Put(foreign)
	g := p.Get(n)
	vrt.Assert(g != nil, "get-non-nil")
	vrt.Assert(g.Cap() >= n, "cap>=n")
	vrt.Assert(g.Len() == 0, "buffer-is-reset")
	if g == foreign {
		vrt.Reach("c19-buffer-reuse")
	}
	h := p.Get(n)
	vrt.Assert(h != g, "exclusive-ownership")
}

// ZZ_C19_BufferHandOver: one goroutine fills a pooled buffer and Puts it back while another goroutine Gets from the
// same pool (precise model: it may receive that very buffer the moment it is in the pool): what Get returns is
// empty, and what the new owner writes stays what it wrote - the previous owner is done with the buffer when it
// hands it over.
func ZZ_C19_BufferHandOver(max, n int) {
	p := New(max)
	seed := p.Get(n)
	vrt.Go("old-owner", func() {
		seed.WriteByte(0x55)
		seed.WriteByte(0x56)
		p.Put(seed)
	})
	vrt.Go("new-owner", func() {
		g := p.Get(n)
		vrt.Assert(g != nil && g.Cap() >= n, "cap>=n")
		vrt.Assert(g.Len() == 0, "buffer-is-reset")
		g.WriteByte(0x77)
		vrt.Yield()
		vrt.Assert(g.Len() == 1, "exclusive-ownership-under-concurrency")
		if g.Len() == 1 {
			vrt.Assert(g.Bytes()[0] == 0x77, "exclusive-ownership-under-concurrency")
		}
		if g == seed {
			vrt.Reach("c19-buffer-handed-over")
		}
	})
	vrt.Quiesce()
	vrt.Reach("c19-handover-done")
}
