package driver

func init() {
	var quick, thorough []*Job
	b := "writers whose calls all returned before Close is invoked (structurally), queue size q, wait-forever / bounded-wait mode; ALL interleavings of sender (incl. release/re-acquire window), executor start-up and closer; poll loop cut after 3 contended polls (stutter steps)"
	n := int64(0)
	add := func(list *[]*Job, args ...int64) {
		// close argument kinds (plain error, nil, timeout net.Error, wrapped net.Error) rotate over the jobs
		*list = append(*list, &Job{Pkg: "", Func: "ZZ_C06_Close", Args: append(args, n%4), Bounds: b})
		n++
	}
	// (q, until, nw, ww, wwOther, entries)
	for _, q := range []int64{1, 2} {
		for _, until := range []int64{1, 0} {
			add(&quick, q, until, 1, 2, 0, 0)
			add(&quick, q, until, 2, 1, 1, 1*8+0)
		}
	}
	add(&quick, 1, 1, 1, 1, 0, 1)
	// the parent context ends before / while Close runs (the order Bootstrap.Shutdown uses)
	for _, c := range [][]int64{{2, 0, 1, 2, 0, 0, 8}, {1, 0, 1, 1, 0, 1, 8},
		{1, 1, 1, 2, 0, 0, 6}, {2, 0, 2, 1, 1, 1*8 + 0, 7},
		{1, 1, 1, 2, 0, 0, 4}, {2, 0, 1, 2, 0, 1, 4}, {1, 1, 1, 2, 0, 0, 5}, {2, 1, 2, 1, 1, 1*8 + 0, 4}} {
		quick = append(quick, &Job{Pkg: "", Func: "ZZ_C06_Close", Args: c, Bounds: b + "; the channel's parent context is cancelled before (4) or concurrently with (5) Close"})
	}
	for _, q := range []int64{1, 2, 3} {
		for _, until := range []int64{1, 0} {
			add(&thorough, q, until, 1, 3, 0, 2)
		}
	}
	add(&thorough, 1, 1, 2, 2, 1, 3*8+4)
	add(&thorough, 2, 1, 2, 2, 1, 1*8+0)
	add(&thorough, 3, 0, 2, 2, 1, 3*8+4)
	Specs["C06"] = &Spec{
		Jobs: jobsBy(quick, thorough), Labels: labelFilter("c06-"),
		MustReach: []string{"c06-close-within-grace", "c06-done"},
		Bounds: map[string]string{
			"quick":    "exactly two completed writes (1 writer x 2, 2 writers x 1 - the loss needs the failing CAS of a second accepted write) and one write, queue sizes 1-2, both wait modes, Close from the harness thread",
			"thorough": "three writes (1 writer x 3 for queue sizes 1-3 in both modes; 2+1 writes on three configurations; 3 writers x 1 write exceeds 6*10^5 states and is outside)",
		},
		Outside:     "the xhttp 'Connection: close' path reaches Close through ctx.Close from a handler (same Channel.Close code); a sender stalled beyond the 1 s grace on bounded-wait channels is excluded by the statement (the oracle uses the closer's accumulated sleep)",
		Assumptions: Specs["C01"].Assumptions,
	}
}
