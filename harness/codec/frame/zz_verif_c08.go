package frame

import (
	"github.com/go-netty/go-netty"
	"errors"

	"github.com/go-netty/go-netty/internal/vrt"
)

var zzErrBoom = errors.New("zz: connection reset")

// zzAdversary builds a source over an arbitrary stream of L bytes that ends with io.EOF or another error,
// delivered in every fragmentation the source model enumerates.
func zzAdversary(L, frag int) (*zzSrc, []byte) {
	stream := vrt.Bytes(L)
	src := &zzSrc{data: stream, frag: frag, splits: 2, eofWithData: vrt.Choose(2) == 1}
	if vrt.Choose(2) == 1 {
		src.endErr = zzErrBoom
	}
	return src, stream
}

// zzExpectException: the call raised a (non-runtime) exception and delivered nothing.
func zzExpectException(pv interface{}, ctx *zzCtx, why string) {
	vrt.Assert(pv != nil || len(ctx.in) == 0, why+"-nothing-delivered")
	vrt.Assert(pv != nil, why+"-raises-exception")
	vrt.Assert(!vrt.IsRuntimeError(pv), "exception-is-not-a-runtime-fault")
	vrt.Assert(len(ctx.in) == 0, why+"-nothing-delivered")
}

// zzFreshAfterReject: a decoder instance that has just rejected its input is handed a new, well-formed frame on a new
// source (the next connection of a shared codec, or the next read of a channel whose exception handler kept it open):
// it delivers exactly that frame and consumes exactly its bytes - a rejected frame leaves nothing behind.
func zzFreshAfterReject(dec netty.InboundHandler, wire, want []byte) {
	src := &zzSrc{data: wire}
	ctx := &zzCtx{}
	pv := vrt.Panics(func() { dec.HandleRead(ctx, src) })
	vrt.Assert(pv == nil && len(ctx.in) == 1, "fresh-frame-after-a-rejected-one-is-delivered")
	if pv != nil || len(ctx.in) != 1 {
		return
	}
	got, ok := zzDrain(ctx.in[0], len(want)+4)
	vrt.Assert(ok, "frame-readable")
	zzSameBytes(got, want, "fresh-frame-after-a-rejected-one")
	vrt.Assert(src.off == len(wire), "consumed-exactly-the-frame")
	vrt.Reach("c08-fresh-after-reject")
}

func zzRefField(b []byte, w, order int) int64 {
	var u uint64
	for i := 0; i < w; i++ {
		if order == 0 {
			u = u<<8 | uint64(b[i])
		} else {
			u |= uint64(b[i]) << (8 * uint(i))
		}
	}
	return int64(u)
}

// ZZ_C08_LengthField: the length-field decoder on an arbitrary stream, against a reference parser.
func ZZ_C08_LengthField(w, order, off, adj, strip, max, L, frag int) {
	src, stream := zzAdversary(L, frag)
	dec := LengthFieldCodec(zzOrder(order), max, off, w, adj, strip)
	hdr := off + w
	fresh := func() {
		bl := 1
		if adj > 0 {
			bl = adj + 1
		}
		if bl+hdr > max || strip > bl+hdr {
			return
		}
		body := make([]byte, bl)
		for i := range body {
			body[i] = byte(0x41 + i)
		}
		f := zzRefFrame(w, order, off, bl-adj, body)
		zzFreshAfterReject(dec, f, f[strip:])
	}
	for round := 0; round < 2; round++ {
		start := src.off
		rem := L - start
		ctx := &zzCtx{}
		pv := vrt.Panics(func() { dec.HandleRead(ctx, src) })
		vrt.Assert(pv == nil || !vrt.IsRuntimeError(pv), "exception-is-not-a-runtime-fault")
		vrt.Assert(src.off-start <= max+hdr, "bytes-pulled-bounded")
		if rem < hdr {
			vrt.Reach("c08-lf-short-header")
			zzExpectException(pv, ctx, "short-header")
			fresh()
			return
		}
		v := zzRefField(stream[start+off:start+hdr], w, order)
		fl := v + int64(adj+hdr)
		if v < 0 || fl < int64(hdr) || fl > int64(max) || int64(strip) > fl {
			vrt.Reach("c08-lf-invalid-length")
			zzExpectException(pv, ctx, "invalid-length")
			fresh()
			return
		}
		if fl > int64(rem) {
			vrt.Reach("c08-lf-truncated")
			zzExpectException(pv, ctx, "truncated-frame")
			fresh()
			return
		}
		vrt.Reach("c08-lf-complete")
		vrt.Assert(pv == nil, "complete-frame-accepted")
		vrt.Assert(len(ctx.in) == 1, "complete-frame-delivered-once")
		got, ok := zzDrain(ctx.in[0], L+1)
		vrt.Assert(ok, "frame-readable")
		zzSameBytes(got, stream[start+strip:start+int(fl)], "frame")
		vrt.Assert(src.off == start+int(fl), "consumed-exactly-the-frame")
	}
}

// ZZ_C08_Varint: the varint decoder on an arbitrary stream.
func ZZ_C08_Varint(max, L, frag int) {
	src, stream := zzAdversary(L, frag)
	dec := VarintLengthFieldCodec(max)
	for round := 0; round < 2; round++ {
		start := src.off
		rem := L - start
		ctx := &zzCtx{}
		pv := vrt.Panics(func() { dec.HandleRead(ctx, src) })
		vrt.Assert(pv == nil || !vrt.IsRuntimeError(pv), "exception-is-not-a-runtime-fault")
		vrt.Assert(src.off-start <= max+10, "bytes-pulled-bounded")
		// reference uvarint
		var x uint64
		var s uint
		k := 0
		ok := false
		for i := 0; i < 10 && i < rem; i++ {
			b := stream[start+i]
			if b < 0x80 {
				if i == 9 && b > 1 {
					break
				}
				x |= uint64(b) << s
				k = i + 1
				ok = true
				break
			}
			x |= uint64(b&0x7f) << s
			s += 7
		}
		if !ok {
			vrt.Reach("c08-varint-bad-header")
			zzExpectException(pv, ctx, "bad-header")
			if max >= 2 {
				zzFreshAfterReject(dec, []byte{1, 0x41}, []byte{0x41})
			}
			return
		}
		if x > uint64(max) {
			vrt.Reach("c08-varint-oversized")
			zzExpectException(pv, ctx, "oversized")
			if max >= 2 {
				zzFreshAfterReject(dec, []byte{1, 0x41}, []byte{0x41})
			}
			return
		}
		if int(x) > rem-k {
			vrt.Reach("c08-varint-truncated")
			zzExpectException(pv, ctx, "truncated-frame")
			if max >= 2 {
				zzFreshAfterReject(dec, []byte{1, 0x41}, []byte{0x41})
			}
			return
		}
		vrt.Reach("c08-varint-complete")
		vrt.Assert(pv == nil, "complete-frame-accepted")
		vrt.Assert(len(ctx.in) == 1, "complete-frame-delivered-once")
		got, dok := zzDrain(ctx.in[0], L+1)
		vrt.Assert(dok, "frame-readable")
		zzSameBytes(got, stream[start+k:start+k+int(x)], "frame")
		vrt.Assert(src.off == start+k+int(x), "consumed-exactly-the-frame")
	}
}

// ZZ_C08_Delimiter: the delimiter decoder on an arbitrary stream.
func ZZ_C08_Delimiter(dl, stripD, max, L, frag int) {
	delim := "\n"
	if dl == 2 {
		delim = "\r\n"
	}
	if dl == 3 {
		delim = "--\n"
	}
	src, stream := zzAdversary(L, frag)
	src.eofWithData = false // outside the claim for this decoder (see DESIGN.md C04/C08)
	dec := DelimiterCodec(max, delim, stripD != 0)
	for round := 0; round < 2; round++ {
		start := src.off
		rem := L - start
		ctx := &zzCtx{}
		pv := vrt.Panics(func() { dec.HandleRead(ctx, src) })
		vrt.Assert(pv == nil || !vrt.IsRuntimeError(pv), "exception-is-not-a-runtime-fault")
		vrt.Assert(src.off-start <= max, "bytes-pulled-bounded")
		// reference: the first position e (1..min(max,rem)) at which the bytes read so far end with the delimiter
		e := 0
		for i := dl; i <= max && i <= rem; i++ {
			match := true
			for j := 0; j < dl; j++ {
				if stream[start+i-dl+j] != delim[j] {
					match = false
					break
				}
			}
			if match {
				e = i
				break
			}
		}
		if e == 0 {
			vrt.Reach("c08-delim-missing")
			zzExpectException(pv, ctx, "missing-delimiter")
			body := []byte{0x41}
			want := body
			if stripD == 0 {
				want = append(append([]byte(nil), body...), delim...)
			}
			if 1+dl <= max {
				zzFreshAfterReject(dec, append(append([]byte(nil), body...), delim...), want)
			}
			return
		}
		vrt.Reach("c08-delim-complete")
		vrt.Assert(pv == nil, "complete-frame-accepted")
		vrt.Assert(len(ctx.in) == 1, "complete-frame-delivered-once")
		got, ok := zzDrain(ctx.in[0], L+1)
		vrt.Assert(ok, "frame-readable")
		end := start + e
		if stripD != 0 {
			end -= dl
		}
		zzSameBytes(got, stream[start:end], "frame")
		vrt.Assert(src.off == start+e, "consumed-exactly-the-frame")
	}
}

// ZZ_C08_Fixed: the fixed-length decoder on an arbitrary stream (including a closed peer).
func ZZ_C08_Fixed(fix, L, frag int) {
	src, stream := zzAdversary(L, frag)
	dec := FixedLengthCodec(fix)
	for round := 0; round < 3; round++ {
		start := src.off
		rem := L - start
		ctx := &zzCtx{}
		pv := vrt.Panics(func() { dec.HandleRead(ctx, src) })
		vrt.Assert(pv == nil || !vrt.IsRuntimeError(pv), "exception-is-not-a-runtime-fault")
		vrt.Assert(src.off-start <= fix, "bytes-pulled-bounded")
		if rem < fix {
			vrt.Reach("c08-fixed-truncated")
			zzExpectException(pv, ctx, "truncated-frame")
			fresh := make([]byte, fix)
			for i := range fresh {
				fresh[i] = byte(0x41 + i)
			}
			zzFreshAfterReject(dec, fresh, fresh)
			return
		}
		vrt.Reach("c08-fixed-complete")
		vrt.Assert(pv == nil, "complete-frame-accepted")
		vrt.Assert(len(ctx.in) == 1, "complete-frame-delivered-once")
		got, ok := zzDrain(ctx.in[0], L+1)
		vrt.Assert(ok, "frame-readable")
		zzSameBytes(got, stream[start:start+fix], "frame")
		vrt.Assert(src.off == start+fix, "consumed-exactly-the-frame")
	}
}

// ZZ_C08_Variable: variable-length decoder: every delivery is a non-empty chunk of at most max bytes,
// end of stream raises an exception.
func ZZ_C08_Variable(max, L, frag int) {
	src, stream := zzAdversary(L, frag)
	dec := VariableLengthCodec(max)
	for round := 0; round < 3; round++ {
		start := src.off
		rem := L - start
		ctx := &zzCtx{}
		pv := vrt.Panics(func() { dec.HandleRead(ctx, src) })
		vrt.Assert(pv == nil || !vrt.IsRuntimeError(pv), "exception-is-not-a-runtime-fault")
		if rem == 0 {
			vrt.Reach("c08-variable-eos")
			zzExpectException(pv, ctx, "end-of-stream")
			return
		}
		if pv != nil {
			// allowed only when the source reported its error together with the last bytes
			vrt.Assert(src.off == L && src.eofWithData, "exception-only-at-end-of-stream")
			return
		}
		got, ok := zzDrain(ctx.in[0], L+1)
		vrt.Assert(ok && len(got) >= 1 && len(got) <= max, "chunk-bounded")
		zzSameBytes(got, stream[start:start+len(got)], "chunk")
		vrt.Assert(src.off == start+len(got), "consumed-exactly-the-chunk")
	}
	vrt.Reach("c08-variable-done")
}

// zzPanicOnce is a downstream handler context whose first delivery fails (a handler behind the codec panics while
// it handles the packet, having read only part of it); later deliveries are recorded.
type zzPanicOnce struct {
	zzCtx
	failed bool
}

func (c *zzPanicOnce) HandleRead(message netty.Message) {
	if !c.failed {
		c.failed = true
		if r, ok := message.(interface{ Read([]byte) (int, error) }); ok {
			var one [1]byte
			r.Read(one[:])
		}
		panic(zzErrBoom)
	}
	c.in = append(c.in, message)
}

// ZZ_C08_Packet: the packet codec keeps one read buffer for all packets of its connection. A packet whose delivery
// fails (kind 0: the handler behind the codec panics after reading part of it; kind 1: the transport fails in the
// middle of the packet) leaves nothing behind: the next packet is delivered exactly - no stale prefix.
func ZZ_C08_Packet(kind int) {
	dec := PacketCodec(16)
	n1 := vrt.Choose(3) + 1
	n2 := vrt.Choose(3) + 1
	p1 := vrt.Bytes(n1)
	p2 := vrt.Bytes(n2)
	ctx := &zzPanicOnce{}
	if kind == 1 {
		ctx.failed = true // no handler failure in this variant
	}
	src1 := &zzSrc{data: p1}
	if kind == 1 {
		src1.endErr = zzErrBoom // the packet read ends with a transport error instead of io.EOF
	}
	pv := vrt.Panics(func() { dec.HandleRead(ctx, src1) })
	vrt.Assert(pv != nil && !vrt.IsRuntimeError(pv), "exception-is-not-a-runtime-fault")
	vrt.Assert(len(ctx.in) == 0, "failed-packet-nothing-delivered")
	pv = vrt.Panics(func() { dec.HandleRead(ctx, &zzSrc{data: p2}) })
	vrt.Assert(pv == nil && len(ctx.in) == 1, "fresh-frame-after-a-rejected-one-is-delivered")
	if pv == nil && len(ctx.in) == 1 {
		got, ok := zzDrain(ctx.in[0], 16)
		vrt.Assert(ok, "frame-readable")
		zzSameBytes(got, p2, "fresh-frame-after-a-rejected-one")
	}
	vrt.Reach("c08-packet-done")
}
