package netty

import (
	"context"

	"github.com/go-netty/go-netty/internal/vrt"
)

const zzMaxWrites = 6

// zzGhost is the oracle state of the write harnesses. It records relations (never step numbers), so that
// interleavings that differ only in irrelevant order reach identical states and are merged.
type zzGhost struct {
	n        int
	snap     [zzMaxWrites][]byte // payload content at call time
	invoked  [zzMaxWrites]bool
	returned [zzMaxWrites]bool
	ok       [zzMaxWrites]bool
	retN     [zzMaxWrites]int64
	before   [zzMaxWrites][zzMaxWrites]bool // before[a][b]: call a had returned when call b was invoked
	content  string                         // label prefix of the content assertions ("c01" or, with scribbling callers, "c10")
	sent     string                         // label of the "accepted payload was sent" assertion
}

func (g *zzGhost) invoke(id int, p []byte) {
	g.snap[id] = append([]byte(nil), p...)
	for a := 0; a < g.n; a++ {
		g.before[a][id] = g.returned[a]
	}
	g.invoked[id] = true
}

func (g *zzGhost) ret(id int, n int64, err error) {
	g.retN[id] = n
	g.ok[id] = err == nil
	g.returned[id] = true
}

// checkLog parses the transport log (payloads start with a concrete tag id+1) and asserts that it is the
// concatenation of whole, unmodified payloads of accepted-or-in-flight calls, each at most once, in an order
// that respects real time (and therefore each thread's call order).
func (g *zzGhost) checkLog(log []byte, final bool) {
	var seen [zzMaxWrites]bool
	pos := 0
	for pos < len(log) {
		tag := int(log[pos])
		vrt.Assert(tag >= 1 && tag <= g.n, g.content+"-log-starts-with-a-known-payload")
		id := tag - 1
		vrt.Assert(g.invoked[id], "c01-payload-of-an-invoked-call")
		vrt.Assert(!seen[id], "c01-payload-at-most-once")
		vrt.Assert(!(g.returned[id] && !g.ok[id]), "c01-failed-call-contributes-nothing")
		want := g.snap[id]
		vrt.Assert(pos+len(want) <= len(log) || !final, g.content+"-payload-whole")
		if pos+len(want) > len(log) {
			return // a prefix check may see a payload whose tail is still being written
		}
		for i := range want {
			vrt.Assert(log[pos+i] == want[i], g.content+"-payload-unmodified")
		}
		// real-time order: everything that had returned (successfully) before this call began precedes it
		for a := 0; a < g.n; a++ {
			if g.before[a][id] && g.ok[a] && len(g.snap[a]) > 0 {
				vrt.Assert(seen[a], "c01-order-respects-real-time")
			}
		}
		seen[id] = true
		pos += len(want)
	}
	if final {
		for id := 0; id < g.n; id++ {
			if g.returned[id] && g.ok[id] && len(g.snap[id]) > 0 {
				lbl := g.sent
				if lbl == "" {
					lbl = "c02-accepted-payload-was-sent"
				}
				vrt.Assert(seen[id], lbl)
			}
		}
	}
}

// zzCall issues one low-level write through the chosen entry point.
func zzCall(ch *channel, entry int, ctx context.Context, p []byte) (int64, error) {
	switch entry {
	case 0:
		n, err := ch.Write1(p)
		return int64(n), err
	case 1:
		h := len(p) / 2
		return ch.Writev([][]byte{p[:h], p[h:]})
	case 2:
		n, err := ch.CtxWrite1(ctx, p)
		return int64(n), err
	case 3:
		h := (len(p) + 1) / 2
		return ch.CtxWritev(ctx, [][]byte{p[:h], p[h:]})
	case 5:
		return ch.Writev([][]byte{p}) // single-element vector
	case 6:
		return ch.CtxWritev(ctx, [][]byte{p})
	case 7:
		h := len(p) / 2
		return ch.Writev([][]byte{p[:h], {}, p[h:]}) // with an empty element
	default:
		n, err := ch.Writer().Write(p)
		return int64(n), err
	}
}

func zzPayload(id, size int) []byte {
	p := make([]byte, size)
	for i := range p {
		p[i] = vrt.Byte()
	}
	if size > 0 {
		p[0] = byte(id + 1)
	}
	return p
}

// ZZ_C01_Writers: nw writer threads issue ww writes each on one channel (queue q; q==0 synchronous;
// until: blocking queue mode). entries packs one entry point (0..7) per writer, base 8.
// Decides C01 (every transport write and at quiescence), C02 (quiescence) and C10 (callers scribble on
// their buffers right after each call; pooled buffers are havocked on Put).
func ZZ_C01_Writers(q, until, nw, ww, wwOther, entries, sizes, scribble int) {
	tr := newZZTransport()
	// until: 0 non-blocking queue, 1 blocking queue, 2/3 the same with scheduling points inside the transport's
	// Write/Writev/Flush (a transport call is a system call, not an atomic step)
	tr.yield = until >= 2
	until %= 2
	pl := NewPipeline()
	ch := zzNewChannel(pl, tr, q, until != 0)
	g := &zzGhost{n: ww + (nw-1)*wwOther, content: "c01"}
	if scribble != 0 {
		g.content = "c10"
	}
	tr.onWrite = func(p []byte) {}
	checkNow := func() { g.checkLog(tr.log, false) }
	tr.onClose = checkNow
	for w := 0; w < nw; w++ {
		w := w
		entry := entries
		for i := 0; i < w; i++ {
			entry /= 8
		}
		entry %= 8
		vrt.Go("w"+string(rune('0'+w)), func() {
			mine := ww
			base := 0
			if w > 0 {
				mine = wwOther
				base = ww + (w-1)*wwOther
			}
			for k := 0; k < mine; k++ {
				id := base + k
				size := 1 + (sizes+id)%3
				if sizes >= 100 && id == 0 {
					size = 0 // one empty payload
				}
				p := zzPayload(id, size)
				vrt.Yield()
				g.invoke(id, p)
				n, err := zzCall(ch, entry, context.Background(), p)
				g.ret(id, n, err)
				if err == nil {
					vrt.Assert(n == int64(size), "c01-accepted-write-reports-full-length")
				} else {
					vrt.Assert(n == 0, "c01-failed-write-reports-zero")
					vrt.Assert(q > 0 && until == 0 && err == ErrAsyncNoSpace, "c18-only-queue-full-fails-on-open-channel")
					vrt.Reach("c01-queue-full")
				}
				// C10: the caller reuses its buffer immediately
				if scribble != 0 {
					for i := range p {
						p[i] = 0xEE
					}
				}
			}
		})
	}
	dead := vrt.Quiesce()
	vrt.Assert(!dead, "c02-no-thread-left-blocked")
	g.checkLog(tr.log, true)
	vrt.Assert(tr.unflushed == 0, "c02-flushed-after-last-byte")
	vrt.Assert(tr.closes == 0 && ch.IsActive(), "c01-channel-stays-open")
	vrt.Assert(ch.running == idle || q == 0, "c02-sender-released-ownership")
	vrt.Assert(q == 0 || len(ch.writeQueue) == 0, "c02-queue-drained")
	vrt.Reach("c01-quiescent")
}

var zzBigSizes = []int{0, 1, 1023, 1024, 1025, 2048, 65536, 65537}

// ZZ_C01_Sizes: one writer, payload sizes across the pool size classes, every entry point; the second
// (small) write checks order across size classes.
func ZZ_C01_Sizes(q, until, entry, sizeIdx, scribble int) {
	tr := newZZTransport()
	pl := NewPipeline()
	ch := zzNewChannel(pl, tr, q, until != 0)
	n := zzBigSizes[sizeIdx]
	a := vrt.Bytes(n)
	b := []byte{0x42, vrt.Byte()}
	sa := append([]byte(nil), a...)
	sb := append([]byte(nil), b...)
	na, ea := zzCall(ch, entry, context.Background(), a)
	if scribble != 0 {
		for i := 0; i < n && i < 4; i++ {
			a[i] = 0xEE
		}
		if n > 8 {
			a[n-1] = 0xEE
			a[n/2] = 0xEE
		}
	}
	nb, eb := zzCall(ch, (entry+1)%8, context.Background(), b)
	if scribble != 0 {
		b[0], b[1] = 0xEE, 0xEE
	}
	vrt.Assert(ea == nil && eb == nil && na == int64(n) && nb == 2, "c01-accepted-write-reports-full-length")
	if q > 0 {
		dead := vrt.Quiesce()
		vrt.Assert(!dead, "c02-no-thread-left-blocked")
	}
	lbl := "c01"
	if scribble != 0 {
		lbl = "c10"
	}
	vrt.Assert(len(tr.log) == n+2, lbl+"-payload-whole")
	if n > 0 {
		i := vrt.IntIn(0, n-1)
		vrt.Assert(tr.log[i] == sa[i], lbl+"-payload-unmodified")
	}
	vrt.Assert(tr.log[n] == sb[0] && tr.log[n+1] == sb[1], lbl+"-payload-unmodified")
	vrt.Assert(tr.unflushed == 0, "c02-flushed-after-last-byte")
	vrt.Reach("c01-sizes-done")
}

// zzManualExecutor keeps the actions it is given; the harness runs them when it chooses (a sender that
// starts late, on the caller's goroutine: fully sequential).
type zzManualExecutor struct{ pending []Action }

func (e *zzManualExecutor) Exec(a Action) { e.pending = append(e.pending, a) }
func (e *zzManualExecutor) runAll() {
	for len(e.pending) > 0 {
		a := e.pending[0]
		e.pending = e.pending[1:]
		a()
	}
}

// ZZ_C10_Recycle: pool recycling across batches with the precise sync.Pool model, sequentially: `first` payloads
// are accepted and sent in one batch (their buffers are recycled together), then `second` payloads are accepted
// (their buffers may be any of the recycled ones), the callers scribble, the sender runs, and every payload must
// arrive intact and in order.
func ZZ_C10_Recycle(q, first, second, entry int) {
	tr := newZZTransport()
	pl := NewPipeline()
	ex := &zzManualExecutor{}
	ch := newChannelWith(context.Background(), pl, tr, ex, 1, q, true).(*channel)
	pl.(*pipeline).channel = ch
	var want []byte
	id := 0
	for round, count := range []int{first, second} {
		for k := 0; k < count; k++ {
			p := zzPayload(id, 2+id%2)
			id++
			want = append(want, p...)
			n, err := zzCall(ch, (entry+k+round)%8, context.Background(), p)
			vrt.Assert(err == nil && n == int64(len(p)), "c10-accepted")
			for i := range p {
				p[i] = 0xEE
			}
		}
		ex.runAll()
	}
	vrt.Assert(len(tr.log) == len(want), "c10-payload-whole")
	for i := range want {
		if i < len(tr.log) {
			vrt.Assert(tr.log[i] == want[i], "c10-payload-unmodified")
		}
	}
	vrt.Assert(tr.unflushed == 0 && len(ch.writeQueue) == 0, "c10-everything-sent")
	vrt.Reach("c10-recycle-done")
}
